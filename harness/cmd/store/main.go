// Engine `store`: the real stateful-token store (token/stateful.go) on a temp
// file (C16).  After EVERY op the harness (1) stats/reads the file, (2) loads a
// second, fresh `state` on the same file ("a freshly started server") and (3)
// looks at what the live instance honours, without perturbing it; the three
// observations are appended to the op's result:
//
//	<op tokens> => <result> | <filever> <fresh-etag> <fresh-set> <live-etag> <live-set>
//
// Version tags are size+mtime strings; they are printed as v1, v2, ... in order
// of first appearance (`-` = no file / empty tag).  Because mtime may tick
// coarsely, the generator makes every new file version differ in SIZE from
// every earlier one of the case (padding in the username / trailing blanks);
// should a tag nevertheless be reused for different contents the case is
// abandoned with the result `aba` (the property scopes equal-tag successors out).
//
// Faults: `fs` = RLIMIT_FSIZE 0 during the call (every write(2) fails with
// EFBIG, nothing is written), `fd` = RLIMIT_NOFILE 0 (every open(2) fails with
// EMFILE).  Times are offsets in seconds from the case's base time (= now).
//
// Helper modes (not part of the line protocol):
//
//	store helper <scenario> <file>   run one rewrite/add between two marker syscalls (for strace)
//	store syscalls-lean              print lean/GaleneVerif/Generated/SyscallsToken.lean from fresh captures
package main

import (
	"bytes"
	"encoding/json"
	"errors"
	"fmt"
	"os"
	"os/exec"
	"path/filepath"
	"regexp"
	"runtime"
	"sort"
	"strconv"
	"strings"
	"sync"
	"syscall"
	"time"

	"github.com/jech/galene/token"
	"github.com/jech/galene/zzverif/common"
)

// ---------------------------------------------------------------------------
// token encoding  id:group:sub:exp:nb:pad   ("~" = empty string, "n" = nil)

type tok struct {
	id, group string
	sub       bool
	exp, nb   *int64
	pad       int
}

func unq(s string) string {
	if s == "~" {
		return ""
	}
	return s
}

func q(s string) string {
	if s == "" {
		return "~"
	}
	return s
}

func optInt(s string) *int64 {
	if s == "n" {
		return nil
	}
	v, err := strconv.ParseInt(s, 10, 64)
	if err != nil {
		panic("bad time offset " + s)
	}
	return &v
}

func optStr(p *int64) string {
	if p == nil {
		return "n"
	}
	return strconv.FormatInt(*p, 10)
}

func parseTok(s string) tok {
	f := strings.Split(s, ":")
	if len(f) != 6 {
		panic("bad token encoding " + s)
	}
	return tok{id: unq(f[0]), group: unq(f[1]), sub: f[2] == "1", exp: optInt(f[3]), nb: optInt(f[4]), pad: common.Atoi(f[5])}
}

func (t tok) String() string {
	return fmt.Sprintf("%s:%s:%s:%s:%s:%d", q(t.id), q(t.group), common.B2s(t.sub), optStr(t.exp), optStr(t.nb), t.pad)
}

func mkStateful(base time.Time, t tok) *token.Stateful {
	user := strings.Repeat("x", t.pad)
	s := &token.Stateful{Token: t.id, Group: t.group, IncludeSubgroups: t.sub, Username: &user,
		Permissions: []string{"present"}}
	if t.exp != nil {
		x := base.Add(time.Duration(*t.exp) * time.Second)
		s.Expires = &x
	}
	if t.nb != nil {
		x := base.Add(time.Duration(*t.nb) * time.Second)
		s.NotBefore = &x
	}
	return s
}

func encStateful(base time.Time, s *token.Stateful) string {
	t := tok{id: s.Token, group: s.Group, sub: s.IncludeSubgroups, pad: -1}
	if s.Username != nil {
		t.pad = len(*s.Username)
	}
	if s.Expires != nil {
		x := s.Expires.Unix() - base.Unix()
		t.exp = &x
	}
	if s.NotBefore != nil {
		x := s.NotBefore.Unix() - base.Unix()
		t.nb = &x
	}
	if t.pad < 0 {
		return strings.Replace(t.String(), ":-1", ":N", 1)
	}
	return t.String()
}

func lineOf(s *token.Stateful) []byte {
	b, err := json.Marshal(s)
	if err != nil {
		panic(err)
	}
	return append(b, '\n')
}

var junk = []string{`{"token":"a","gro`, `42`, `[]`, `{"token":5}`}

// ---------------------------------------------------------------------------
// fault injection

func withFault(f string, fn func()) {
	var res int
	switch f {
	case "none":
		fn()
		return
	case "fs":
		res = syscall.RLIMIT_FSIZE
	case "fd":
		res = syscall.RLIMIT_NOFILE
	default:
		panic("bad fault " + f)
	}
	var old syscall.Rlimit
	if err := syscall.Getrlimit(res, &old); err != nil {
		panic(err)
	}
	if err := syscall.Setrlimit(res, &syscall.Rlimit{Cur: 0, Max: old.Max}); err != nil {
		panic(err)
	}
	defer func() {
		if err := syscall.Setrlimit(res, &old); err != nil {
			panic(err)
		}
	}()
	fn()
}

func errName(err error) string {
	switch {
	case err == nil:
		return "ok"
	case errors.Is(err, token.ErrTagMismatch):
		return "mismatch"
	case errors.Is(err, os.ErrNotExist):
		return "notfound"
	}
	return "err"
}

// ---------------------------------------------------------------------------
// engine

type snapshot struct {
	exists  bool
	tag     string
	ino     uint64
	size    int64
	content []byte
}

type eng struct {
	root    string
	ncase   int
	dir     string
	file    string
	base    time.Time
	vers    map[string]int
	names   []string
	used    map[int64]bool
	maxSize int64
	prev    snapshot
	tainted bool
	implTags map[string]string // tag served by the code -> (size, mtime) of the version it was served for
	implName []string          // per version (parallel to names): the tag the code serves for it, whatever its format
	prevImpl string
	clash    string
	abas    int
	// views after the last op, for the generator
	live     map[string]*token.Stateful
	liveOK   bool
	nspecial int
}

func scratchRoot() string {
	if s := os.Getenv("VERIF_SCRATCH"); s != "" {
		return s
	}
	return "/tmp/store-scratch"
}

func (e *eng) init() {
	if e.root == "" {
		e.root = filepath.Join(scratchRoot(), fmt.Sprintf("run-%d", os.Getpid()))
		if err := os.MkdirAll(e.root, 0700); err != nil {
			panic(err)
		}
	}
}

func (e *eng) cleanup() {
	if e.root != "" {
		os.RemoveAll(e.root)
	}
}

func (e *eng) Reset() {
	e.init()
	if e.dir != "" {
		os.RemoveAll(e.dir)
	}
	e.ncase++
	e.dir = filepath.Join(e.root, fmt.Sprintf("c%d", e.ncase))
	// the data directory itself is created by the code under test (add: MkdirAll)
	if err := os.MkdirAll(e.dir, 0700); err != nil {
		panic(err)
	}
	e.file = filepath.Join(e.dir, "data", "tokens.jsonl")
	e.base = time.Now().Truncate(time.Second)
	e.vers = map[string]int{}
	e.names = nil
	e.used = map[int64]bool{}
	e.maxSize = 0
	e.prev = snapshot{}
	e.tainted = false
	e.implTags = map[string]string{}
	e.implName = nil
	e.prevImpl = ""
	e.clash = ""
	e.live = map[string]*token.Stateful{}
	e.liveOK = true
	token.SetStatefulFilename(e.file)
	token.VerifStoreRestart()
}

func rawTag(fi os.FileInfo) string {
	return fmt.Sprintf("\"%v-%v\"", fi.Size(), fi.ModTime().UnixNano())
}

func (e *eng) canon(etag string) string {
	if etag == "" {
		return "-"
	}
	if k, ok := e.vers[etag]; ok {
		return fmt.Sprintf("v%d", k)
	}
	return "unknown"
}

// tag resolves an etag token of an op to the string handed to the real code.
func (e *eng) tag(s string) string {
	switch {
	case s == "-":
		return ""
	case s == "cur":
		if e.prev.exists {
			if e.prevImpl != "" {
				return e.prevImpl
			}
			return e.prev.tag
		}
		return ""
	case s == "bogus":
		return "\"bogus\""
	case strings.HasPrefix(s, "v"):
		k := common.Atoi(s[1:])
		if k >= 1 && k <= len(e.names) {
			if k <= len(e.implName) && e.implName[k-1] != "" {
				return e.implName[k-1]
			}
			return e.names[k-1]
		}
		return fmt.Sprintf("\"unknown-%d\"", k)
	}
	panic("bad etag token " + s)
}

func (e *eng) setString(a []*token.Stateful, err error) string {
	if err != nil {
		return "err"
	}
	if len(a) == 0 {
		return "-"
	}
	xs := make([]string, len(a))
	for i, s := range a {
		xs[i] = encStateful(e.base, s)
	}
	sort.Strings(xs)
	return strings.Join(xs, ",")
}

// observe looks at the file, at a fresh state on it, and at the live state.
func (e *eng) observe() string {
	var snap snapshot
	if fi, err := os.Stat(e.file); err == nil {
		snap.exists = true
		snap.tag = rawTag(fi)
		snap.size = fi.Size()
		if st, ok := fi.Sys().(*syscall.Stat_t); ok {
			snap.ino = st.Ino
		}
		snap.content, _ = os.ReadFile(e.file)
	}
	p := e.prev
	changed := snap.exists != p.exists || snap.ino != p.ino || !bytes.Equal(snap.content, p.content)
	if snap.exists {
		if _, known := e.vers[snap.tag]; known {
			if changed {
				// equal tags for different versions: outside the property's scope
				e.tainted = true
				e.abas++
			}
		} else {
			e.names = append(e.names, snap.tag)
			e.vers[snap.tag] = len(e.names)
		}
		e.used[snap.size] = true
		if snap.size > e.maxSize {
			e.maxSize = snap.size
		}
	}
	e.prev = snap
	ftag := "-"
	if snap.exists {
		ftag = e.canon(snap.tag)
	}
	fa, fetag, ferr := token.VerifStoreFresh(e.file).Peek()
	la, letag, lerr := token.VerifStoreLive().Peek()
	e.live = map[string]*token.Stateful{}
	e.liveOK = lerr == nil
	for _, s := range la {
		e.live[s.Token] = s
	}
	// whatever its format, the tag the code serves identifies one version: two versions of the file that differ in
	// size or modification time must not be given the same tag
	if ferr == nil && fetag != "" && snap.exists {
		if prior, ok := e.implTags[fetag]; ok && prior != snap.tag && e.clash == "" {
			e.clash = fmt.Sprintf("tagclash:%s:%s:%s", strings.Trim(fetag, "\""), strings.Trim(prior, "\""), strings.Trim(snap.tag, "\""))
		}
		e.implTags[fetag] = snap.tag
		if k, ok := e.vers[snap.tag]; ok {
			for len(e.implName) < k {
				e.implName = append(e.implName, "")
			}
			e.implName[k-1] = fetag
		}
		e.prevImpl = fetag
	} else {
		e.prevImpl = ""
	}
	fe, le := e.canon(fetag), e.canon(letag)
	if ferr != nil {
		fe = "err"
	}
	if lerr != nil {
		le = "err"
	}
	return fmt.Sprintf("%s %s %s %s %s", ftag, fe, e.setString(fa, ferr), le, e.setString(la, lerr))
}

func (e *eng) writeFile(content []byte) {
	if err := os.MkdirAll(filepath.Dir(e.file), 0700); err != nil {
		panic(err)
	}
	// an external editor: new inode, then rename (so that a reader never sees half of it)
	tmp := e.file + ".ext"
	if err := os.WriteFile(tmp, content, 0600); err != nil {
		panic(err)
	}
	if err := os.Rename(tmp, e.file); err != nil {
		panic(err)
	}
}

func (e *eng) extContent(items string, trail int) []byte {
	var b bytes.Buffer
	if items != "-" {
		for _, it := range strings.Split(items, ",") {
			if strings.HasPrefix(it, "junk") {
				b.WriteString(junk[common.Atoi(it[4:])%len(junk)])
				b.WriteByte('\n')
			} else {
				b.Write(lineOf(mkStateful(e.base, parseTok(it))))
			}
		}
	}
	b.WriteString(strings.Repeat(" ", trail))
	return b.Bytes()
}

func (e *eng) Exec(op []string) string {
	switch op[0] {
	case "syscalls":
		return e.syscallsOp(op[1])
	case "crash":
		return e.crashOp(op[1], op[2], common.Atoi(op[3]))
	}
	if e.tainted {
		return "aba"
	}
	res := e.exec1(op)
	obs := e.observe()
	if e.clash != "" {
		c := e.clash
		e.clash = "reported"
		if c != "reported" {
			return c
		}
	}
	if e.tainted {
		return "aba"
	}
	return res + " | " + obs
}

func (e *eng) exec1(op []string) string {
	switch op[0] {
	case "update": // update <tok> <etag> <fault>
		s := mkStateful(e.base, parseTok(op[1]))
		etag := e.tag(op[2])
		var err error
		withFault(op[3], func() { _, err = token.Update(s, etag) })
		return errName(err)
	case "delete": // delete <id> <etag> <fault>
		etag := e.tag(op[2])
		var err error
		withFault(op[3], func() { err = token.Delete(unq(op[1]), etag) })
		return errName(err)
	case "tick": // wait until the file system clock has moved on: the next version gets a later modification time
		deadline := time.Now().Add(2 * time.Second)
		probe := filepath.Join(e.dir, "tick-probe")
		for time.Now().Before(deadline) {
			os.WriteFile(probe, []byte("x"), 0600)
			pi, err1 := os.Stat(probe)
			fi, err2 := os.Stat(e.file)
			if err1 == nil && (err2 != nil || pi.ModTime().After(fi.ModTime())) {
				break
			}
			time.Sleep(time.Millisecond)
		}
		os.Remove(probe)
		return "ok"
	case "get":
		s, etag, err := token.Get(unq(op[1]))
		if err != nil {
			return errName(err)
		}
		return encStateful(e.base, s) + " " + e.canon(etag)
	case "list":
		a, etag, err := token.List(unq(op[1]))
		if err != nil {
			return errName(err)
		}
		return e.setString(a, nil) + " " + e.canon(etag)
	case "check": // check <id> <group>: what token.Parse + Check do for a client presenting the token
		s, _, err := token.Get(unq(op[1]))
		if err != nil {
			return errName(err)
		}
		user, perms, err := s.Check("", unq(op[2]))
		if err != nil {
			switch err.Error() {
			case "token for bad group":
				return "badgroup"
			case "token has expired":
				return "expired"
			case "token is in the future":
				return "future"
			}
			return "err"
		}
		return fmt.Sprintf("ok:%d:%s", len(user), strings.Join(perms, "+"))
	case "expire": // expire <fault>
		var err error
		withFault(op[1], func() { err = token.Expire() })
		return errName(err)
	case "ext": // ext <items> <trail>: another process replaces the file
		e.writeFile(e.extContent(op[1], common.Atoi(op[2])))
		return "done"
	case "extrm":
		os.Remove(e.file)
		return "done"
	case "restart":
		token.VerifStoreRestart()
		return "done"
	case "setfile":
		token.SetStatefulFilename(e.file)
		return "done"
	case "race": // race <n> <u|d> <tok> <etag>: n concurrent writers presenting the same tag
		n := common.Atoi(op[1])
		t := parseTok(op[3])
		etag := e.tag(op[4])
		results := make([]string, n)
		start := make(chan struct{})
		var wg sync.WaitGroup
		for j := 0; j < n; j++ {
			wg.Add(1)
			go func(j int) {
				defer wg.Done()
				var err error
				tt := t
				tt.pad += j
				s := mkStateful(e.base, tt)
				<-start
				if op[2] == "d" && j == 0 {
					err = token.Delete(t.id, etag)
				} else {
					_, err = token.Update(s, etag)
				}
				results[j] = errName(err)
			}(j)
		}
		close(start)
		wg.Wait()
		return strings.Join(results, ",")
	}
	panic("unknown op " + op[0])
}

// ---------------------------------------------------------------------------
// size bookkeeping for the generator (every new version must have a new size)

func (e *eng) liveSize(except string) int64 {
	var n int64
	for id, s := range e.live {
		if id != except {
			n += int64(len(lineOf(s)))
		}
	}
	return n
}

func (e *eng) curSize() int64 {
	if e.prev.exists {
		return e.prev.size
	}
	return 0
}

// padFor chooses the padding of a token to be written so that both the
// appended file (creation) and the rewritten file (update) are larger than
// every earlier version of this case.
func (e *eng) padFor(t tok, r *common.Rng, extra int) int {
	t.pad = 0
	l0 := int64(len(lineOf(mkStateful(e.base, t))))
	create := e.curSize() + l0
	update := e.liveSize(t.id) + l0
	m := create
	if update < m {
		m = update
	}
	want := e.maxSize + 1 + int64(r.Intn(3)) + int64(extra)
	if m >= want {
		return r.Intn(3)
	}
	return int(want - m)
}

// ---------------------------------------------------------------------------
// generator

var ids = []string{"a", "b", "c", "d"}
var groups = []string{"g", "h", "g/s", ""}

const week = 7 * 24 * 3600

func i64(v int64) *int64 { return &v }

func randTok(r *common.Rng, id string) tok {
	t := tok{id: id, group: common.Pick(r, "g", "g", "g", "h", "g/s", ""), sub: r.Intn(4) == 0}
	switch r.Weighted(10, 25, 15, 40, 10) {
	case 0:
	case 1:
		t.exp = i64(-week - int64(common.Pick(r, 3600, 86400, 100000)))
	case 2:
		t.exp = i64(-int64(common.Pick(r, 3600, 86400, week-3600)))
	case 3:
		t.exp = i64(3600)
	case 4:
		t.exp = i64(7200)
	}
	switch r.Weighted(70, 20, 10) {
	case 1:
		t.nb = i64(-60)
	case 2:
		t.nb = i64(1800)
	}
	return t
}

func pickFault(r *common.Rng, none, fs, fd int) string {
	return []string{"none", "fs", "fd"}[r.Weighted(none, fs, fd)]
}

func (e *eng) staleTag(r *common.Rng) string {
	if len(e.names) == 0 {
		return "bogus"
	}
	return fmt.Sprintf("v%d", 1+r.Intn(len(e.names)))
}

func sweepable(s *token.Stateful, base time.Time) bool {
	return s.Expires != nil && s.Expires.Unix()-base.Unix() < -week
}

func gen(t *common.Trace, ce common.Engine, r *common.Rng, thorough bool) {
	e := ce.(*eng)
	ncases, nops := 500, 50
	if thorough {
		ncases, nops = 6000, 80
	}
	// the syscall shape of the file replacement, captured from this very binary
	t.Case("syscalls")
	e.Reset()
	for _, sc := range scenarios {
		res := common.Do(t, e, "syscalls "+sc)
		if strings.HasPrefix(res, "unavailable") {
			t.Count("strace-unavailable")
			continue
		}
		// crash at every syscall of the replacement (quick: only inside the marked section)
		pts := e.crashPoints(sc, thorough)
		for _, p := range pts {
			out := common.Do(t, e, fmt.Sprintf("crash %s %s %d", sc, p.name, p.n))
			t.Count("crash:" + strings.Join(strings.Fields(out), "-"))
		}
	}
	for ci := 0; ci < ncases; ci++ {
		t.Case(fmt.Sprint(ci))
		e.Reset()
		do := func(f string, args ...any) string {
			res := common.Do(t, e, fmt.Sprintf(f, args...))
			if i := strings.Index(res, " | "); i >= 0 {
				return res[:i]
			}
			return res
		}
		faulty := r.Intn(3) != 0 // a third of the cases without injected faults
		steps := r.Range(nops/3, nops)
		for i := 0; i < steps && !e.tainted; i++ {
			id := common.Pick(r, ids...)
			if r.Intn(40) == 0 {
				id = ""
			}
			if len(e.live) > 0 && r.Intn(3) != 0 { // mostly a token that exists
				k := r.Intn(len(e.live))
				var keys []string
				for x := range e.live {
					keys = append(keys, x)
				}
				sort.Strings(keys)
				id = keys[k]
				if r.Intn(3) == 0 { // or, for writers, one that does not
					id = common.Pick(r, ids...)
				}
			}
			_, present := e.live[id]
			w := []int{34, 12, 8, 6, 8, 9, 6, 1, 4, 3, 5}
			if !e.liveOK && r.Bool() {
				w = []int{0, 0, 0, 0, 0, 0, 1, 0, 0, 0, 0} // an undecodable file: mostly repaired soon
			}
			switch r.Weighted(w...) {
			case 0: // update / create
				tk := randTok(r, id)
				tk.pad = e.padFor(tk, r, 0)
				var etag string
				if present {
					etag = []string{"cur", e.staleTag(r), "-", "bogus"}[r.Weighted(65, 20, 10, 5)]
				} else {
					etag = []string{"-", "cur", e.staleTag(r), "bogus"}[r.Weighted(70, 15, 10, 5)]
				}
				f := "none"
				if faulty {
					f = pickFault(r, 80, 10, 10)
				}
				if f == "fs" && !e.prev.exists && e.used[0] {
					f = "none" // would create a second empty file (same size as an earlier version)
				}
				res := do("update %s %s %s", tk, etag, f)
				t.Count(fmt.Sprintf("update:%s:%s", map[bool]string{true: "existing", false: "absent"}[present], res))
			case 1: // delete
				etag := []string{"cur", e.staleTag(r), "-", "bogus"}[r.Weighted(70, 20, 5, 5)]
				if present && len(e.live) > 1 && e.used[e.liveSize(id)] {
					t.Count("skipped:delete-size-not-fresh")
					continue
				}
				f := "none"
				if faulty {
					f = pickFault(r, 80, 10, 10)
				}
				res := do("delete %s %s %s", q(id), etag, f)
				t.Count(fmt.Sprintf("delete:%s:%s", map[bool]string{true: "existing", false: "absent"}[present], res))
			case 2:
				res := do("get %s", q(id))
				if res == "notfound" || res == "err" {
					t.Count("get:" + res)
				} else {
					t.Count("get:found")
				}
			case 3:
				do("list %s", q(common.Pick(r, groups...)))
			case 4:
				g := common.Pick(r, "g", "g", "h", "g/s", "g/s/t", "")
				res := do("check %s %s", q(id), q(g))
				t.Count("check:" + strings.SplitN(res, ":", 2)[0])
			case 5: // expire
				var rest int64
				nswept, nkept := 0, 0
				for _, s := range e.live {
					if sweepable(s, e.base) {
						nswept++
					} else {
						nkept++
						rest += int64(len(lineOf(s)))
					}
				}
				if nswept > 0 && nkept > 0 && e.used[rest] {
					t.Count("skipped:expire-size-not-fresh")
					continue
				}
				f := "none"
				if faulty {
					f = pickFault(r, 80, 10, 10)
				}
				res := do("expire %s", f)
				t.Count(fmt.Sprintf("expire:swept=%v:%s", nswept > 0, res))
			case 6: // external edit
				var items []string
				var size int64
				n := r.Weighted(5, 15, 30, 30, 20)
				for j := 0; j < n; j++ {
					if r.Intn(25) == 0 {
						k := r.Intn(len(junk))
						items = append(items, fmt.Sprintf("junk%d", k))
						size += int64(len(junk[k]) + 1)
						continue
					}
					tk := randTok(r, common.Pick(r, ids...))
					tk.pad = r.Intn(4)
					if len(e.live) > 0 && r.Intn(3) == 0 { // keep a token as it is
						for _, s := range e.live {
							tk = parseTok(encStateful(e.base, s))
							break
						}
					}
					items = append(items, tk.String())
					size += int64(len(lineOf(mkStateful(e.base, tk))))
				}
				trail := 0
				if want := e.maxSize + 1 + int64(r.Intn(3)); size < want {
					trail = int(want - size)
				}
				if len(items) == 0 && !e.used[0] && r.Bool() {
					trail = 0 // an empty file, once
				}
				s := "-"
				if len(items) > 0 {
					s = strings.Join(items, ",")
				}
				do("ext %s %d", s, trail)
			case 7:
				do("extrm")
			case 8:
				do("restart")
			case 9:
				do("setfile")
			case 10: // concurrent writers with one tag
				n := r.Range(2, 4)
				kind := common.Pick(r, "u", "u", "d")
				tk := randTok(r, id)
				tk.pad = e.padFor(tk, r, 0)
				if kind == "d" && present && len(e.live) > 1 && e.used[e.liveSize(id)] {
					kind = "u"
				}
				var etag string
				if present {
					etag = []string{"cur", e.staleTag(r)}[r.Weighted(80, 20)]
				} else {
					etag = []string{"-", "cur"}[r.Weighted(80, 20)]
				}
				res := do("race %d %s %s %s", n, kind, tk, etag)
				t.Count(fmt.Sprintf("race:wins=%d", strings.Count(res, "ok")))
			}
		}
		if !e.tainted && e.liveOK && r.Intn(3) == 0 {
			// two versions of the SAME size written at different times (the property: successive versions differ in size
			// OR modification time): the tag of the first must not be accepted once the second exists
			tk := tok{id: "z", group: "g", exp: i64(3600)}
			tk.pad = e.padFor(tk, r, 0)
			if do("update %s cur none", tk) == "ok" && !e.tainted {
				va := len(e.names)
				do("tick")
				tk.exp = i64(3601)
				if do("update %s cur none", tk) == "ok" && !e.tainted && len(e.names) > va {
					t.Count("same-size-versions")
					tk.exp = i64(3602)
					if r.Bool() {
						do("update %s v%d none", tk, va)
					} else {
						do("delete %s v%d none", q("z"), va)
					}
				}
			}
		}
		if e.tainted {
			t.Count("aba-abandoned")
		}
		// closing probe: what is honoured now, by the live state and after a restart
		do("list g")
		do("restart")
		do("list g")
	}
}

// ---------------------------------------------------------------------------
// atomic replacement: strace capture and crash injection

var scenarios = []string{"rewrite", "add", "addfresh", "remove", "expire"}

var (
	farFuture = time.Unix(4000000000, 0).UTC()
	longAgo   = time.Unix(1000000000, 0).UTC()
)

func fixedTok(id string, pad int, exp time.Time) *token.Stateful {
	// distinct expiry times: `list` sorts by expiry, so the order of the lines (and of
	// the captured writes) is deterministic
	exp = exp.Add(time.Duration(id[0]-'a') * time.Hour)
	user := strings.Repeat("y", pad)
	return &token.Stateful{Token: id, Group: "g", Username: &user, Permissions: []string{"present"}, Expires: &exp}
}

// scenarioSetup writes the initial token file of a scenario.
func scenarioSetup(sc, file string) {
	if err := os.MkdirAll(filepath.Dir(file), 0700); err != nil {
		panic(err)
	}
	var b bytes.Buffer
	switch sc {
	case "rewrite":
		b.Write(lineOf(fixedTok("a", 3, farFuture)))
		b.Write(lineOf(fixedTok("b", 4, farFuture)))
		b.Write(lineOf(fixedTok("c", 5, farFuture)))
	case "add":
		b.Write(lineOf(fixedTok("a", 3, farFuture)))
		b.Write(lineOf(fixedTok("b", 4, farFuture)))
	case "addfresh":
		return
	case "remove":
		b.Write(lineOf(fixedTok("a", 3, farFuture)))
	case "expire":
		b.Write(lineOf(fixedTok("a", 3, longAgo)))
		b.Write(lineOf(fixedTok("b", 4, farFuture)))
		b.Write(lineOf(fixedTok("c", 5, farFuture)))
	default:
		panic("unknown scenario " + sc)
	}
	if err := os.WriteFile(file, b.Bytes(), 0600); err != nil {
		panic(err)
	}
}

func mark(s string) { os.Stat("/VERIF-MARK-" + s) }

// helper runs in a child process (under strace): one replacement of the token
// file by the real code, between two marker syscalls.
func helper(sc, file string) int {
	token.SetStatefulFilename(file)
	var err error
	switch sc {
	case "rewrite":
		var etag string
		_, etag, err = token.Get("a")
		if err != nil {
			return 4
		}
		mark("BEGIN")
		_, err = token.Update(fixedTok("a", 9, farFuture), etag)
		mark("END")
	case "add", "addfresh":
		_, _, err = token.List("g")
		if err != nil {
			return 4
		}
		mark("BEGIN")
		_, err = token.Update(fixedTok("d", 6, farFuture), "")
		mark("END")
	case "remove":
		var etag string
		_, etag, err = token.Get("a")
		if err != nil {
			return 4
		}
		mark("BEGIN")
		err = token.Delete("a", etag)
		mark("END")
	case "expire":
		_, _, err = token.List("g")
		if err != nil {
			return 4
		}
		mark("BEGIN")
		err = token.Expire()
		mark("END")
	default:
		return 5
	}
	if err != nil {
		return 3
	}
	return 0
}

// rawSet is the set of tokens a fresh state loads from a file (JSON lines, sorted).
func rawSet(file string) string {
	a, _, err := token.VerifStoreFresh(file).Peek()
	if err != nil {
		return "err"
	}
	xs := make([]string, len(a))
	for i, s := range a {
		xs[i] = strings.TrimSpace(string(lineOf(s)))
	}
	sort.Strings(xs)
	return strings.Join(xs, "|")
}

type sysOp struct {
	kind  string // creat append trunc read write fsync close rename unlink other
	p, p2 string
	n     int
}

type capture struct {
	ops    []sysOp        // inside the marked section, canonical
	counts map[string]int // per syscall name on the main thread: calls before END
	first  map[string]int // per syscall name: index (1-based) of the first call after BEGIN
	raw    []string
}

var (
	reLine    = regexp.MustCompile(`^(\d+)\s+(\w+)\((.*)\)\s+=\s+(-?\d+|\?)(.*)$`)
	reUnfin   = regexp.MustCompile(`^(\d+)\s+(\w+)\((.*) <unfinished \.\.\.>$`)
	reResumed = regexp.MustCompile(`^(\d+)\s+<\.\.\. (\w+) resumed>(.*)$`)
	reStr     = regexp.MustCompile(`"((?:[^"\\]|\\.)*)"`)
	rePid     = regexp.MustCompile(`^\d+\s+`)
	reTmp     = regexp.MustCompile(`/tokens\d+"`)
	reAddr    = regexp.MustCompile(`0x[0-9a-f]+`)
)

func haveStrace() bool {
	_, err := exec.LookPath("strace")
	return err == nil
}

// runCapture runs the helper for a scenario under strace and parses the log.
func (e *eng) runCapture(sc string) (*capture, string, string, error) {
	c, _, old, new_, err := e.runCapture2(sc)
	return c, old, new_, err
}

func (e *eng) runCapture2(sc string) (*capture, string, string, string, error) {
	e.init()
	e.nspecial++
	dir := filepath.Join(e.root, fmt.Sprintf("s%d", e.nspecial))
	file := filepath.Join(dir, "data", "tokens.jsonl")
	scenarioSetup(sc, file)
	defer os.RemoveAll(dir)
	old := rawSet(file)
	self, err := os.Executable()
	if err != nil {
		return nil, "", "", "", err
	}
	logf := filepath.Join(dir, "strace.log")
	cmd := exec.Command("strace", "-f", "-s", "0", "-e", "trace=file,desc,write", "-o", logf, self, "helper", sc, file)
	out, err := cmd.CombinedOutput()
	if err != nil {
		return nil, "", "", "", fmt.Errorf("strace: %v: %s", err, out)
	}
	data, err := os.ReadFile(logf)
	if err != nil {
		return nil, "", "", "", err
	}
	c := parseCapture(string(data), filepath.Dir(file), file)
	return c, file, old, rawSet(file), nil
}

func parseCapture(log, dir, target string) *capture {
	c := &capture{counts: map[string]int{}, first: map[string]int{}}
	pending := map[string]string{}
	var lines []string
	for _, l := range strings.Split(log, "\n") {
		if m := reUnfin.FindStringSubmatch(l); m != nil {
			pending[m[1]+" "+m[2]] = m[1] + " " + m[2] + "(" + m[3]
			continue
		}
		if m := reResumed.FindStringSubmatch(l); m != nil {
			if p, ok := pending[m[1]+" "+m[2]]; ok {
				delete(pending, m[1]+" "+m[2])
				l = p + m[3]
			}
		}
		lines = append(lines, l)
	}
	mainPid := ""
	section := 0 // 0 before BEGIN, 1 inside, 2 after END
	fds := map[string]string{}
	for _, l := range lines {
		m := reLine.FindStringSubmatch(l)
		if m == nil {
			continue
		}
		pid, name, args, ret := m[1], m[2], m[3], m[4]
		if mainPid == "" {
			mainPid = pid
		}
		strs := reStr.FindAllStringSubmatch(args, -1)
		if name == "newfstatat" && len(strs) > 0 && strings.HasPrefix(strs[0][1], "/VERIF-MARK-") {
			if strs[0][1] == "/VERIF-MARK-BEGIN" {
				section = 1
			} else {
				section = 2
			}
			if pid == mainPid {
				c.counts[name]++
			}
			continue
		}
		if section == 2 {
			continue
		}
		if pid == mainPid {
			c.counts[name]++
			if section == 1 {
				if _, ok := c.first[name]; !ok {
					c.first[name] = c.counts[name]
				}
			}
		}
		ok := ret != "?" && !strings.HasPrefix(ret, "-")
		inDir := func(p string) bool { return filepath.Dir(p) == dir }
		switch name {
		case "openat", "open":
			if len(strs) == 0 {
				continue
			}
			p := strs[0][1]
			if ok {
				fds[ret] = p
			}
			if section != 1 || !inDir(p) {
				continue
			}
			c.raw = append(c.raw, l)
			if !ok {
				c.ops = append(c.ops, sysOp{kind: "other", p: p})
				continue
			}
			kind := "read"
			switch {
			case strings.Contains(args, "O_CREAT") && strings.Contains(args, "O_EXCL"):
				kind = "creat"
			case strings.Contains(args, "O_TRUNC"):
				kind = "trunc"
			case strings.Contains(args, "O_APPEND"):
				kind = "append"
			case strings.Contains(args, "O_WRONLY") || strings.Contains(args, "O_RDWR"):
				kind = "trunc" // in-place writer: treated as unsafe
			}
			c.ops = append(c.ops, sysOp{kind: kind, p: p})
		case "write", "pwrite64", "writev", "fsync", "fdatasync", "close", "ftruncate":
			fd := strings.SplitN(args, ",", 2)[0]
			fd = strings.TrimSpace(fd)
			p, known := fds[fd]
			if name == "close" && ok {
				delete(fds, fd)
			}
			if section != 1 || !known || !inDir(p) {
				continue
			}
			c.raw = append(c.raw, l)
			switch {
			case !ok:
				c.ops = append(c.ops, sysOp{kind: "other", p: p})
			case name == "close":
				c.ops = append(c.ops, sysOp{kind: "close", p: p})
			case name == "fsync" || name == "fdatasync":
				c.ops = append(c.ops, sysOp{kind: "fsync", p: p})
			case name == "ftruncate":
				c.ops = append(c.ops, sysOp{kind: "trunc", p: p})
			default:
				n, _ := strconv.Atoi(ret)
				c.ops = append(c.ops, sysOp{kind: "write", p: p, n: n})
			}
		case "rename", "renameat", "renameat2":
			if section != 1 || len(strs) < 2 {
				continue
			}
			c.raw = append(c.raw, l)
			if ok {
				c.ops = append(c.ops, sysOp{kind: "rename", p: strs[0][1], p2: strs[1][1]})
			} else {
				c.ops = append(c.ops, sysOp{kind: "other", p: strs[0][1]})
			}
		case "unlink", "unlinkat":
			if section != 1 || len(strs) < 1 {
				continue
			}
			c.raw = append(c.raw, l)
			if ok {
				c.ops = append(c.ops, sysOp{kind: "unlink", p: strs[0][1]})
			} else {
				c.ops = append(c.ops, sysOp{kind: "other", p: strs[0][1]})
			}
		case "link", "linkat", "symlink", "symlinkat", "truncate":
			if section != 1 || len(strs) < 1 {
				continue
			}
			c.raw = append(c.raw, l)
			// not expected at all: report as an in-place writer of whatever it names last
			c.ops = append(c.ops, sysOp{kind: "trunc", p: strs[len(strs)-1][1]})
		default:
			if section == 1 && len(strs) > 0 && (inDir(strs[0][1]) || strs[0][1] == dir) {
				c.raw = append(c.raw, l)
				c.ops = append(c.ops, sysOp{kind: "other", p: strs[0][1]})
			}
		}
	}
	return c
}

// canonical path names: the target is 0.0, other files of its directory 0.1,
// 0.2, ... in order of appearance; other directories 1.x, 2.x.
type interner struct {
	target string
	dirs   map[string]int
	names  map[string]int
}

func newInterner(target string) *interner {
	return &interner{target: target, dirs: map[string]int{filepath.Dir(target): 0}, names: map[string]int{target: 0}}
}

func (in *interner) path(p string) string {
	d, ok := in.dirs[filepath.Dir(p)]
	if !ok {
		d = len(in.dirs)
		in.dirs[filepath.Dir(p)] = d
	}
	n, ok := in.names[p]
	if !ok {
		n = len(in.names)
		in.names[p] = n
	}
	return fmt.Sprintf("%d.%d", d, n)
}

func canonOps(c *capture, target string) []string {
	in := newInterner(target)
	var out []string
	for _, o := range c.ops {
		switch o.kind {
		case "write":
			out = append(out, fmt.Sprintf("write:%s:%d", in.path(o.p), o.n))
		case "rename":
			out = append(out, fmt.Sprintf("rename:%s:%s", in.path(o.p), in.path(o.p2)))
		default:
			out = append(out, fmt.Sprintf("%s:%s", o.kind, in.path(o.p)))
		}
	}
	return out
}

func (e *eng) syscallsOp(sc string) string {
	if !haveStrace() {
		return "unavailable"
	}
	c, file, old, new_, err := e.runCapture2(sc)
	if err != nil {
		return "unavailable:" + strings.ReplaceAll(err.Error(), " ", "_")
	}
	if old == new_ {
		return "nochange"
	}
	ops := canonOps(c, file)
	if len(ops) == 0 {
		return "none"
	}
	return strings.Join(ops, " ")
}

type crashPoint struct {
	name string
	n    int
}

// crashPoints lists (syscall, k) such that killing the helper at its k-th call
// of that syscall interrupts the replacement (thorough: also every earlier call).
func (e *eng) crashPoints(sc string, thorough bool) []crashPoint {
	c, _, _, err := e.runCapture(sc)
	if err != nil {
		return nil
	}
	var names []string
	for n := range c.counts {
		names = append(names, n)
	}
	sort.Strings(names)
	var pts []crashPoint
	for _, n := range names {
		first, ok := c.first[n]
		if !ok {
			if !thorough {
				continue
			}
			first = c.counts[n] + 1
		}
		lo := first
		if thorough {
			lo = 1
		}
		for k := lo; k <= c.counts[n]; k++ {
			pts = append(pts, crashPoint{n, k})
		}
	}
	return pts
}

// crashOp kills the helper at entry of the n-th call of a syscall and reloads.
func (e *eng) crashOp(sc, sysname string, n int) string {
	if !haveStrace() {
		return "unavailable"
	}
	e.init()
	e.nspecial++
	dir := filepath.Join(e.root, fmt.Sprintf("s%d", e.nspecial))
	defer os.RemoveAll(dir)
	// what the complete new set is: an undisturbed run in a sibling directory
	ref := filepath.Join(dir, "ref", "tokens.jsonl")
	scenarioSetup(sc, ref)
	self, err := os.Executable()
	if err != nil {
		return "unavailable"
	}
	if out, err := exec.Command(self, "helper", sc, ref).CombinedOutput(); err != nil {
		return "helper-failed:" + strings.ReplaceAll(err.Error()+string(out), " ", "_")
	}
	want := rawSet(ref)
	file := filepath.Join(dir, "data", "tokens.jsonl")
	scenarioSetup(sc, file)
	old := rawSet(file)
	cmd := exec.Command("strace", "-o", "/dev/null", "-e", fmt.Sprintf("inject=%s:signal=KILL:when=%d", sysname, n),
		self, "helper", sc, file)
	err = cmd.Run()
	fate := "survived"
	if err != nil {
		fate = "killed"
	}
	got := rawSet(file)
	// leftovers (temp files) do not matter for the property, but are reported
	left := 0
	if ents, err := os.ReadDir(filepath.Dir(file)); err == nil {
		for _, en := range ents {
			if en.Name() != "tokens.jsonl" {
				left++
			}
		}
	}
	state := "other:" + strings.ReplaceAll(got, " ", "_")
	switch got {
	case old:
		state = "old"
	case want:
		state = "new"
	}
	return fmt.Sprintf("%s %s leftover=%d", fate, state, left)
}

// leanFile prints Generated/SyscallsToken.lean.
func leanFile(e *eng) int {
	var b strings.Builder
	b.WriteString("import GaleneVerif.Model.SafeReplace\n")
	b.WriteString("/-\nGENERATED by extract/gen-syscalls-token (harness `store syscalls-lean`): the file-system\n")
	b.WriteString("syscalls of token/stateful.go's `state.rewrite` / `state.add`, captured with\n")
	b.WriteString("`strace -f -e trace=file,desc,write` from the real code.  Do not edit.\n")
	b.WriteString("Paths: ⟨0,0⟩ is the token file; ⟨0,k⟩ other files of its directory in order of appearance.\n-/\n")
	b.WriteString("namespace Galene.Generated.SyscallsToken\nopen Galene.SafeReplace\n\n")
	b.WriteString("def target : Path := ⟨0, 0⟩\n\n")
	rc := 0
	for _, sc := range scenarios {
		c, file, _, _, err := e.runCapture2(sc)
		if err != nil {
			fmt.Fprintln(os.Stderr, "capture failed:", err)
			return 1
		}
		ops := canonOps(c, file)
		for _, l := range c.raw {
			// deterministic text: no pid, temp-file suffix, addresses
			l = strings.ReplaceAll(l, filepath.Dir(filepath.Dir(file)), "/T")
			l = rePid.ReplaceAllString(l, "")
			l = reTmp.ReplaceAllString(l, "/tokensNNNN\"")
			l = reAddr.ReplaceAllString(l, "0x...")
			b.WriteString("-- " + l + "\n")
		}
		fmt.Fprintf(&b, "def %sOps : List Op :=\n  [", sc)
		for i, o := range ops {
			if i > 0 {
				b.WriteString(",\n   ")
			}
			b.WriteString(leanOp(o))
		}
		b.WriteString("]\n\n")
		if len(ops) == 0 {
			rc = 1
		}
	}
	b.WriteString("end Galene.Generated.SyscallsToken\n")
	fmt.Print(b.String())
	return rc
}

func leanPath(s string) string {
	f := strings.Split(s, ".")
	return fmt.Sprintf("⟨%s, %s⟩", f[0], f[1])
}

func leanOp(o string) string {
	f := strings.Split(o, ":")
	switch f[0] {
	case "write":
		return fmt.Sprintf(".write %s %s", leanPath(f[1]), f[2])
	case "rename":
		return fmt.Sprintf(".rename %s %s", leanPath(f[1]), leanPath(f[2]))
	case "creat":
		return ".createExcl " + leanPath(f[1])
	case "append":
		return ".openAppend " + leanPath(f[1])
	case "trunc":
		return ".openTrunc " + leanPath(f[1])
	case "read":
		return ".openRead " + leanPath(f[1])
	}
	return fmt.Sprintf(".%s %s", f[0], leanPath(f[1]))
}

func init() {
	if len(os.Args) > 1 && os.Args[1] == "helper" {
		// all file-system syscalls of the helper on the main thread, so that
		// `strace` without -f counts them deterministically
		runtime.LockOSThread()
	}
}

func main() {
	if len(os.Args) >= 4 && os.Args[1] == "helper" {
		os.Exit(helper(os.Args[2], os.Args[3]))
	}
	e := &eng{}
	if len(os.Args) >= 2 && os.Args[1] == "syscalls-lean" {
		rc := leanFile(e)
		e.cleanup()
		os.Exit(rc)
	}
	defer e.cleanup()
	common.Main(e, gen)
}
