// Engine `pmap`: drives the real packetmap.Map public API (C01, C03, C02 pid part).
package main

import (
	"fmt"

	"github.com/jech/galene/packetmap"
	"github.com/jech/galene/zzverif/common"
)

type eng struct{ m *packetmap.Map }

func (e *eng) Reset() { e.m = &packetmap.Map{} }

func (e *eng) Exec(op []string) string {
	a := func(i int) uint16 { return uint16(common.Atoi(op[i])) }
	switch op[0] {
	case "newmap":
		e.m = &packetmap.Map{}
		return ""
	case "map":
		ok, n, pd := e.m.Map(a(1), a(2))
		return fmt.Sprintf("%s %d %d", common.B2s(ok), n, pd)
	case "drop":
		return common.B2s(e.m.Drop(a(1), a(2)))
	case "reverse":
		ok, n, pd := e.m.Reverse(a(1))
		return fmt.Sprintf("%s %d %d", common.B2s(ok), n, pd)
	}
	panic("unknown op " + op[0])
}

func gen(t *common.Trace, e common.Engine, r *common.Rng, thorough bool) {
	ncases := 250
	nops := 1500
	if thorough {
		ncases = 1500
		nops = 3000
	}
	// corpus: the proved counterexample C01_forwarded_number_false_for_R8194 (Props/C01Deep.lean):
	// three full intervals, then 8194 consecutive accepted drops, then a late in-window packet
	{
		t.Case("corpus-long-drop-run")
		e.Reset()
		do := func(f string, args ...any) string { return common.Do(t, e, fmt.Sprintf(f, args...)) }
		do("newmap")
		do("map 65535 0")
		do("drop 0 0")
		for _, s := range []int{1, 8193, 16384, 16385, 24577, 32768, 32769, 40961, 49152} {
			do("map %d 0", s)
		}
		for i := 0; i < 8194; i++ {
			do("drop %d 0", (49153+i)&0xFFFF)
		}
		do("map 3 0")
		do("map 2 0")
	}
	for ci := 0; ci < ncases; ci++ {
		t.Case(fmt.Sprint(ci))
		e.Reset()
		do := func(f string, args ...any) string { return common.Do(t, e, fmt.Sprintf(f, args...)) }
		do("newmap")
		seq := r.Intn(65536)
		if r.Intn(3) == 0 {
			seq = common.Pick(r, 0, 1, 0x7FFF, 0x8000, 0xDFFF, 0xE000, 0xE001, 0xFFFF, 0xFFF0)
		}
		pid := r.Intn(32768)
		// profile of the case
		dropProb := common.Pick(r, 0, 5, 20, 50, 80)     // percent of arrivals above the layer
		lateProb := common.Pick(r, 0, 3, 10)              // percent late/duplicate
		resync := r.Intn(6) == 0                          // may contain jumps beyond the window
		longRun := r.Intn(12) == 0                        // a long quiet run (interval growth)
		alternate := r.Intn(6) == 0                       // maxEntries pressure
		steps := r.Range(nops/4, nops)
		if longRun {
			steps = 40000
			if thorough && r.Intn(3) == 0 {
				steps = 70000
			}
			dropProb = 0
		}
		var sent []int // recent source seqnos, for late copies
		arrive := func(s int, wantDrop bool) {
			s &= 0xFFFF
			if wantDrop {
				t.Count("arrive:drop-request")
				if do("drop %d %d", s, pid) == "1" {
					t.Count("drop:accepted")
					return
				}
				t.Count("drop:refused")
			}
			res := do("map %d %d", s, pid)
			var ok, n, pd int
			fmt.Sscanf(res, "%d %d %d", &ok, &n, &pd)
			if ok == 1 {
				if r.Intn(8) == 0 {
					t.Count("reverse:of-forwarded")
					do("reverse %d", n)
				}
			} else {
				t.Count("map:refused")
			}
		}
		dropRun := 0
		for i := 0; i < steps; i++ {
			if longRun && i == steps-200 {
				// after the long run: drops and late packets reaching far back
				dropProb, lateProb = 30, 30
			}
			k := r.Weighted(100-lateProb, lateProb)
			if k == 0 {
				// forward progress
				shape := r.Weighted(80, 12, 3, 1)
				if !resync && shape == 3 {
					shape = 0
				}
				switch shape {
				case 0:
					seq = (seq + 1) & 0xFFFF
				case 1: // upstream loss
					seq = (seq + 1 + r.Range(1, common.Pick(r, 1, 3, 40))) & 0xFFFF
				case 2: // bigger gap, still in window
					seq = (seq + r.Range(41, 8000)) & 0xFFFF
				case 3: // resync jump
					seq = (seq + r.Range(8193, 60000)) & 0xFFFF
				}
				t.Count(fmt.Sprintf("fwdshape:%d", shape))
				if r.Intn(4) == 0 {
					pid = (pid + 1) & 0x7FFF
				}
				want := false
				if alternate {
					want = i%2 == 0
				} else if dropRun > 0 {
					dropRun--
					want = true
				} else if r.Intn(100) < dropProb {
					want = true
					dropRun = r.Intn(common.Pick(r, 1, 4, 20))
				}
				arrive(seq, want)
				sent = append(sent, seq)
				if len(sent) > 400 {
					sent = sent[200:]
				}
			} else {
				// late or duplicate
				var s int
				shape := r.Weighted(40, 30, 10, 10, 10)
				switch shape {
				case 0: // duplicate of a recent packet
					if len(sent) > 0 {
						s = sent[len(sent)-1-r.Intn(min(len(sent), common.Pick(r, 2, 20, 400)))]
					} else {
						s = seq
					}
				case 1: // late by a little
					s = seq - r.Range(1, 300)
				case 2: // near the edge of the window
					s = seq - r.Range(8100, 8192)
				case 3: // far back but within the window
					s = seq - r.Range(300, 8191)
				case 4: // just beyond the window (resync) - malformed stream
					if resync {
						s = seq - r.Range(8193, 9000)
					} else {
						s = seq - r.Range(1, 50)
					}
				}
				t.Count(fmt.Sprintf("lateshape:%d", shape))
				arrive(s, r.Intn(100) < dropProb)
			}
			if r.Intn(40) == 0 {
				// NACK-like reverse lookups of recent / arbitrary outgoing numbers
				t.Count("reverse:random")
				do("reverse %d", (seq-r.Range(0, common.Pick(r, 20, 300, 9000, 40000)))&0xFFFF)
			}
		}
	}
}

func main() { common.Main(&eng{}, gen) }
