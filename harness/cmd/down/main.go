// Engine `down`: drives the real rtpDownTrack (Write, gotNACK, adjustLayer,
// updateRate, replaceTracks' limit loop, requestedTracks) through the shim
// (C01, C02, C03, C04).
package main

import (
	"fmt"
	"io"
	"log"
	"strings"

	"github.com/jech/galene/rtpconn"
	"github.com/jech/galene/zzverif/common"
)

type eng struct{ v *rtpconn.VerifDown }

func (e *eng) Reset() { e.v = nil }

func (e *eng) Exec(op []string) string {
	a := func(i int) int { return common.Atoi(op[i]) }
	switch op[0] {
	case "newdown":
		c := op[1]
		if c == "-" {
			c = ""
		}
		e.v = rtpconn.VerifNewDown(c, a(2))
		return ""
	case "feed":
		return e.v.Feed(common.Unhex(op[1]), true) + " | " + e.v.Layer()
	case "write": // Write without storing in the cache
		return e.v.Feed(common.Unhex(op[1]), false) + " | " + e.v.Layer()
	case "nack":
		return e.v.Nack(uint16(a(1)), 0) + " | " + e.v.Layer()
	case "layer":
		return e.v.Layer()
	case "setrate":
		e.v.SetRate(uint32(a(1)))
		return ""
	case "setmax":
		e.v.SetMax(int64(a(1)))
		return ""
	case "setremb":
		e.v.SetRemb(int64(a(1)))
		return ""
	case "adjust":
		e.v.Adjust()
		return e.v.Layer()
	case "updaterate":
		return fmt.Sprint(e.v.UpdateRate(uint8(a(1))))
	case "getmax":
		r, s, t := e.v.GetMax()
		return fmt.Sprintf("%d %d %d", r, s, t)
	case "setlimit":
		return e.v.SetLimit(a(1) != 0) + " | " + e.v.Layer()
	case "racestress":
		v := rtpconn.VerifNewDown("video/vp9", 16)
		v.SetRate(100000)
		return v.RaceStress(a(1), func(seq int, key bool, sid int) []byte {
			d := common.VP9Desc{I: true, P: !key, L: true, F: false, B: true, E: true, M: true, PictureID: seq & 0x7FFF,
				TID: 0, SID: sid, D: sid > 0, TL0: seq & 0xFF, Keyframe: key && sid == 0, PayloadLen: 5, Seed: seq}
			h := common.RTPHdr{Version: 2, PT: 96, Seq: seq & 0xFFFF, TS: uint32(seq) * 3000, SSRC: 1, Marker: sid == 1}
			return h.Build(d.Bytes())
		})
	case "reqlimit":
		var req []string
		if op[1] != "-" {
			req = strings.Split(op[1], ",")
		}
		n, lim, idx := rtpconn.VerifRequestedLimit(req, a(2), a(3))
		s := fmt.Sprintf("%d %s", n, common.B2s(lim))
		for _, i := range idx {
			s += fmt.Sprintf(" %d", i)
		}
		return s
	}
	panic("unknown op " + op[0])
}

type pkt struct {
	hex string
	seq int
}

// a synthetic layered video source
type source struct {
	r       *common.Rng
	codec   string
	seq     int
	ts      uint32
	pid     int
	m15     bool
	ntid    int // temporal layers
	nsid    int // spatial layers (vp9)
	frame   int
	tl0     int
	flex    bool
	pktsPer int
	parts   bool // VP8: some frames carry several partitions
	force   int  // >= 0: temporal layer of the next frame (overrides the pattern)
}

func (s *source) nextFrame(forceKey bool) []pkt {
	r := s.r
	key := forceKey || s.frame == 0 || r.Intn(40) == 0
	// temporal pattern: 0 2 1 2 for 3 layers, 0 1 for 2
	tid := 0
	if !key && s.ntid > 1 {
		switch s.ntid {
		case 2:
			tid = s.frame % 2
		case 3:
			tid = []int{0, 2, 1, 2}[s.frame%4]
		default:
			tid = []int{0, 3, 2, 3, 1, 3, 2, 3}[s.frame%8]
		}
	}
	if !key && s.force >= 0 {
		tid = s.force
	}
	if key {
		s.frame = 0
	}
	s.frame++
	s.ts += 3000
	s.pid++
	if s.m15 {
		s.pid &= 0x7FFF
	} else {
		s.pid &= 0x7F
	}
	if tid == 0 {
		s.tl0 = (s.tl0 + 1) & 0xFF
	}
	var out []pkt
	nsid := 1
	if strings.EqualFold(s.codec, "video/vp9") {
		nsid = s.nsid
	}
	for sid := 0; sid < nsid; sid++ {
		n := r.Range(1, s.pktsPer)
		for i := 0; i < n; i++ {
			s.seq = (s.seq + 1) & 0xFFFF
			hdr := common.RTPHdr{Version: 2, PT: 96, Seq: s.seq, TS: s.ts, SSRC: 0xCAFE,
				Marker: sid == nsid-1 && i == n-1}
			var payload []byte
			if strings.EqualFold(s.codec, "video/vp8") {
				part := 0
				startBit := i == 0
				if i > 0 && s.parts && r.Intn(2) == 0 {
					// a later VP8 partition starting in this packet: S=1, PartID>0 (not a frame start)
					part = r.Range(1, 7)
					startBit = true
				}
				d := common.VP8Desc{X: true, S: startBit, PartID: part, I: true, L: true, T: s.ntid > 1 || r.Intn(3) == 0, K: false, M: s.m15,
					PictureID: s.pid, TL0: s.tl0, TID: tid, Y: tid > 0 && r.Intn(2) == 0,
					N: tid == s.ntid-1 && s.ntid > 1,
					Keyframe: key, PayloadLen: common.Pick(r, 1, 5, 20, 100), Seed: s.seq}
				payload = d.Bytes()
			} else if strings.EqualFold(s.codec, "video/vp9") {
				d := common.VP9Desc{I: true, P: !key, L: true, F: s.flex, B: i == 0, E: i == n-1,
					V: key && sid == 0 && i == 0, Z: sid == nsid-1 && r.Intn(2) == 0 && nsid > 1, M: s.m15, PictureID: s.pid,
					TID: tid, SID: sid, U: tid > 0 && r.Intn(2) == 0, D: sid > 0, TL0: s.tl0,
					PDiffs: []int{1}, NS: nsid - 1, Y: true, G: false,
					Keyframe: key && sid == 0, Profile: 0, PayloadLen: common.Pick(r, 1, 5, 20, 100), Seed: s.seq}
				payload = d.Bytes()
			} else {
				payload = common.Payload(s.seq, common.Pick(r, 1, 20, 80))
			}
			out = append(out, pkt{common.Hex(hdr.Build(payload)), s.seq})
		}
	}
	return out
}

func gen(t *common.Trace, e common.Engine, r *common.Rng, thorough bool) {
	ncases := 120
	nframes := 150
	if thorough {
		ncases = 2500
		nframes = 400
	}
	// Write against a concurrent adjustLayer (the RTCP listener): feedback must never move the current layer
	{
		t.Case("layer-race")
		e.Reset()
		ms := 250
		if thorough {
			ms = 5000
		}
		common.Do(t, e, fmt.Sprintf("racestress %d", ms))
	}
	// one long history: a three-temporal-layer VP8 stream to a receiver held on T0, so that more than
	// 65536 packets are withheld (the 16-bit offset wraps to 0 while the picture-id shift does not)
	{
		t.Case("long-withheld-run")
		e.Reset()
		do := func(f string, args ...any) string { return common.Do(t, e, fmt.Sprintf(f, args...)) }
		do("newdown video/vp8 16")
		do("setmax 9600")
		do("setrate 2000000")
		src := &source{force: -1, r: r, codec: "video/vp8", seq: r.Intn(65536), ts: 1, pid: r.Intn(32768), m15: true, ntid: 3, nsid: 1, pktsPer: 1}
		withheld := 0
		target := 65536
		done := 0
		for fi := 0; done < 40; fi++ {
			if withheld >= target {
				done++
			}
			// close to a multiple of 65536 withheld packets: steer the source so that a forwarded
			// frame arrives exactly when the 16-bit offset is back at 0
			src.pktsPer = 2
			if withheld >= target-8 {
				src.pktsPer = 1
			}
			if withheld >= target-8 && withheld < target {
				src.force = 2
			} else if withheld == target && done == 1 {
				src.force = 0
			} else {
				src.force = -1
			}
			for _, p := range src.nextFrame(fi == 0) {
				if strings.HasPrefix(do("feed %s", p.hex), "none") {
					withheld++
				}
			}
			if fi < 12 {
				do("adjust")
			}
			if thorough && done == 39 && target == 65536 {
				target, done = 131072, 0
			}
		}
	}
	for ci := 0; ci < ncases; ci++ {
		t.Case(fmt.Sprint(ci))
		e.Reset()
		do := func(f string, args ...any) string { return common.Do(t, e, fmt.Sprintf(f, args...)) }
		codec := common.Pick(r, "video/vp8", "video/vp8", "video/vp9", "video/vp9", "video/VP8", "audio/opus", "video/h264")
		do("newdown %s %d", codec, common.Pick(r, 16, 64, 256))
		src := &source{force: -1, r: r, codec: codec, seq: r.Intn(65536), ts: uint32(r.U64()), pid: r.Intn(32768),
			m15: r.Intn(4) != 0, ntid: r.Range(1, 3), nsid: r.Range(1, 3), flex: r.Intn(3) == 0,
			pktsPer: common.Pick(r, 1, 2, 4)}
		if r.Intn(3) == 0 {
			src.seq = common.Pick(r, 0xFFF0, 0xDFF0, 0xE005, 0x7FF0, 0)
		}
		if r.Intn(3) == 0 {
			src.pid = common.Pick(r, 0x7FF8, 0x78, 0)
		}
		t.Count("codec:" + strings.ToLower(codec))
		// channel profile
		lossPct := common.Pick(r, 0, 0, 2, 8)
		reorderPct := common.Pick(r, 0, 0, 3)
		dupPct := common.Pick(r, 0, 1, 3)
		// initial feedback state
		if r.Intn(2) == 0 {
			do("setmax %d", common.Pick(r, 0, 9600, 100000, 512*1024, 4000000, 1<<30))
		}
		do("setrate %d", common.Pick(r, 0, 1000, 30000, 100000, 2000000))
		if r.Intn(3) == 0 {
			do("setlimit %d", r.Intn(2))
		}
		var recentOut []int
		var held []pkt
		feed := func(p pkt) {
			res := do("feed %s", p.hex)
			f := strings.Fields(res)
			if len(f) > 1 && f[0] == "sent" {
				recentOut = append(recentOut, common.Atoi(f[1]))
				if len(recentOut) > 200 {
					recentOut = recentOut[100:]
				}
				t.Count("feed:sent")
			} else {
				t.Count("feed:" + f[0])
			}
		}
		n := r.Range(nframes/3, nframes)
		src.parts = r.Intn(3) == 0
		growAt := -1
		if r.Intn(2) == 0 {
			growAt = r.Range(5, n) // a new top layer appears in the middle of the stream
		}
		for fi := 0; fi < n; fi++ {
			if growAt > 8 && fi == growAt-6 && r.Bool() {
				// push the receiver below the top layer ...
				do("setmax 9600")
				do("setrate 2000000")
				do("adjust")
			}
			if growAt > 8 && fi == growAt-1 && r.Bool() {
				// ... and leave an up-switch pending when the new top layer appears
				do("setmax 4000000")
				do("setremb -1")
				do("setrate 1000")
				do("adjust")
			}
			if fi == growAt {
				if r.Bool() && src.ntid < 4 {
					src.ntid++
					if strings.EqualFold(codec, "video/vp8") && src.ntid > 3 {
						src.ntid = 3
					}
				} else if src.nsid < 4 {
					src.nsid++
				}
				t.Count("source:new-top-layer")
			}
			for _, p := range src.nextFrame(false) {
				x := r.Intn(100)
				switch {
				case x < lossPct:
					t.Count("chan:lost")
					if r.Intn(2) == 0 {
						held = append(held, p) // arrives late (e.g. upstream retransmission)
					}
					continue
				case x < lossPct+reorderPct:
					held = append(held, p)
					t.Count("chan:held")
					continue
				}
				feed(p)
				if r.Intn(100) < dupPct {
					t.Count("chan:dup")
					feed(p)
				}
				if len(held) > 0 && r.Intn(3) == 0 {
					feed(held[0])
					held = held[1:]
				}
			}
			// feedback events between frames
			switch r.Intn(14) {
			case 0:
				do("setrate %d", common.Pick(r, 0, 1000, 30000, 100000, 2000000))
			case 1:
				do("setmax %d", common.Pick(r, -1, 0, 9600, 100000, 512*1024, 4000000, 1<<30))
			case 2:
				do("setremb %d", common.Pick(r, -1, 0, 50000, 300000, 10000000))
			case 3, 4:
				do("adjust")
			case 5:
				t.Count("updaterate")
				do("updaterate %d", common.Pick(r, 0, 4, 5, 25, 26, 100, 255, r.Intn(256)))
			case 6:
				if r.Intn(3) == 0 {
					do("setlimit %d", r.Intn(2))
				}
			case 7, 8:
				// NACK of something recently sent, a neighbour, or an arbitrary number
				if len(recentOut) > 0 {
					o := recentOut[len(recentOut)-1-r.Intn(min(len(recentOut), common.Pick(r, 3, 20, 200)))]
					o = (o + common.Pick(r, 0, 0, 0, 1, -1, 2)) & 0xFFFF
					res := do("nack %d", o)
					t.Count("nack:" + strings.Fields(res)[0])
				}
			case 9:
				do("nack %d", r.Intn(65536))
			case 10:
				do("getmax")
			}
		}
		if r.Intn(3) == 0 {
			do("reqlimit %s %d %d", common.Pick(r, "-", "audio", "video", "video-low", "audio,video", "audio,video-low",
				"video,video-low", "bogus", "audio,bogus,video-low"), r.Intn(4), r.Intn(3))
		}
	}
}

func main() {
	log.SetOutput(io.Discard)
	common.Main(&eng{}, gen)
}
