// Engine `upe2e`: galene's real readLoop / nackWriter on a track received over
// an in-process PeerConnection pair; NACKs observed at the publisher (C06).
package main

import (
	"fmt"
	"io"
	"log"
	"strings"
	"time"

	"github.com/jech/galene/rtpconn"
	"github.com/jech/galene/zzverif/common"
)

type eng struct{ v *rtpconn.VerifUp }

func (e *eng) Reset() {
	if e.v != nil {
		e.v.Close()
		e.v = nil
	}
}

func (e *eng) Exec(op []string) string {
	a := func(i int) int { return common.Atoi(op[i]) }
	switch op[0] {
	case "newup": // newup <cachesize> <packetrate> <firstseq>
		v, err := rtpconn.VerifNewUp(a(1))
		if err != nil {
			return "setup-failed"
		}
		e.v = v
		if err := v.Start(uint32(a(2)), uint16(a(3))); err != nil {
			return "setup-failed"
		}
		return "ok"
	case "send":
		if err := e.v.Send(uint16(a(1))); err != nil {
			return "lost"
		}
		return "stored"
	case "sendx": // sendx <seq> <pad>: a packet with a header extension and RTP padding
		n, b0, tail, err := e.v.SendX(uint16(a(1)), a(2))
		if err != nil {
			return "lost"
		}
		return fmt.Sprintf("stored %d %d %s", n, b0, common.Hex(tail))
	case "nacks":
		ns := e.v.Nacks(time.Duration(a(1)) * time.Millisecond)
		var sb strings.Builder
		sb.WriteString(fmt.Sprint(len(ns)))
		for _, n := range ns {
			fmt.Fprintf(&sb, " %d", n)
		}
		return sb.String()
	case "nacksfinal": // waits until the NACK stream is quiet
		ns := e.v.NacksStable(time.Duration(a(1))*time.Millisecond, 150*time.Millisecond)
		var sb strings.Builder
		sb.WriteString(fmt.Sprint(len(ns)))
		for _, n := range ns {
			fmt.Fprintf(&sb, " %d", n)
		}
		return sb.String()
	case "getpacket":
		return fmt.Sprint(e.v.GetPacket(uint16(a(1))))
	case "getpackets": // several subscriber NACKs at once: all of them are buffered before nackWriter runs (50 ms later)
		var out []string
		for i := 1; i < len(op); i++ {
			out = append(out, fmt.Sprint(e.v.GetPacket(uint16(a(i)))))
		}
		return strings.Join(out, " ")
	case "stats":
		s := e.v.Stats()
		return fmt.Sprintf("%d %d %d %d %d", s.Received, s.TotalReceived, s.Expected, s.TotalExpected, s.ESeqno)
	}
	panic("unknown op " + op[0])
}

func gen(t *common.Trace, e common.Engine, r *common.Rng, thorough bool) {
	ncases := 24
	if thorough {
		ncases = 400
	}
	for ci := 0; ci < ncases; ci++ {
		t.Case(fmt.Sprint(ci))
		e.Reset()
		do := func(f string, args ...any) string { return common.Do(t, e, fmt.Sprintf(f, args...)) }
		seq := r.Intn(65536)
		if r.Intn(2) == 0 {
			seq = common.Pick(r, 0xFFE0, 0xFFF8, 0xFFFE, 0x7FF0, 0xFF00, 0)
		}
		nearWrap := r.Intn(3) == 0
		if nearWrap {
			// start a few packets before the 16-bit wrap, so that losses straddle it
			seq = 0xFFFF - r.Range(3, 45)
		}
		rate := common.Pick(r, 0, 0, 100, 150, 200, 400, 1200, 5000)
		cache := common.Pick(r, 32, 128)
		if do("newup %d %d %d", cache, rate, seq) != "ok" {
			continue
		}
		n := r.Range(60, 220)
		var held []int
		for i := 0; i < n; i++ {
			seq = (seq + 1) & 0xFFFF
			x := r.Intn(100)
			if nearWrap && i < 60 && r.Intn(4) == 0 {
				x = 0
			}
			switch {
			case x < 6: // lost
				t.Count("chan:lost")
				if r.Intn(3) == 0 {
					held = append(held, seq) // retransmitted later
				}
				continue
			case x < 8: // burst loss
				k := r.Range(1, common.Pick(r, 2, 5, 20, 40))
				seq = (seq + k) & 0xFFFF
				t.Count("chan:burst")
			case x < 11:
				held = append(held, seq)
				t.Count("chan:held")
				continue
			}
			if r.Intn(8) == 0 {
				// a packet with a header extension (the read loop strips it and re-marshals the packet) and, often, padding
				t.Count("chan:ext")
				do("sendx %d %d", seq, common.Pick(r, 0, 0, 1, 4, 7, 200))
			} else {
				do("send %d", seq)
			}
			if len(held) > 0 && r.Intn(4) == 0 {
				do("send %d", held[0])
				held = held[1:]
			}
			if r.Intn(12) == 0 {
				do("nacks 15")
			}
		}
		do("nacksfinal 60")
		do("stats")
		if r.Intn(2) == 0 {
			// a subscriber's NACK for packets the cache no longer / not yet holds (nackWriter path)
			which := r.Intn(4)
			var s int
			switch which {
			case 0: // received long ago, evicted from the cache
				s = (seq - cache - r.Range(1, 60)) & 0xFFFF
			case 1: // beyond the newest packet
				s = (seq + r.Range(1, 100)) & 0xFFFF
			case 2: // in the cache
				s = seq
			default:
				s = (seq - r.Range(1, cache-1)) & 0xFFFF
			}
			t.Count(fmt.Sprintf("getpacket:%d", which))
			do("getpacket %d", s)
			do("nacksfinal 120")
		}
		if r.Intn(2) == 0 {
			// several subscriber NACKs buffered together; neighbours in the buffer that must both be filtered
			// (before the cutoff, beyond the newest, already back in the cache) and ones that must be forwarded
			k := r.Range(2, 6)
			var ss []string
			for j := 0; j < k; j++ {
				which := r.Weighted(3, 3, 1, 2)
				var s int
				switch which {
				case 0:
					s = (seq - cache - r.Range(1, 60)) & 0xFFFF
				case 1:
					s = (seq + r.Range(1, 100)) & 0xFFFF
				case 2:
					s = (seq - r.Range(0, 3)) & 0xFFFF
				default:
					s = (seq - 300 - r.Range(1, 2000)) & 0xFFFF // before the cutoff
				}
				t.Count(fmt.Sprintf("getpackets:%d", which))
				ss = append(ss, fmt.Sprint(s))
			}
			do("getpackets %s", strings.Join(ss, " "))
			do("nacksfinal 120")
		}
	}
	e.Reset()
}

func main() {
	log.SetOutput(io.Discard)
	common.Main(&eng{}, gen)
}
