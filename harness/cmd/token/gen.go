package main

import (
	"fmt"
	"strings"

	"github.com/jech/galene/zzverif/common"
)

// names returns every string over alpha of length <= maxLen, shortest first.
func names(alpha string, maxLen int) []string {
	out := []string{""}
	prev := []string{""}
	for l := 1; l <= maxLen; l++ {
		var cur []string
		for _, p := range prev {
			for i := 0; i < len(alpha); i++ {
				cur = append(cur, p+string(alpha[i]))
			}
		}
		out = append(out, cur...)
		prev = cur
	}
	return out
}

// audPath is the audience path that names group tg ("" is the root).
func audPath(tg string) string {
	if tg == "" {
		return "/group/"
	}
	return "/group/" + tg + "/"
}

// J is a jwt spec (the 10 tokens of the line protocol).
type J struct {
	halg, hkid, signer, exp, nbf, iat, aud, sub, incl, perms string
}

func (j J) String() string {
	return strings.Join([]string{j.halg, j.hkid, j.signer, j.exp, j.nbf, j.iat, j.aud, j.sub, j.incl, j.perms}, " ")
}

func aud1(host, path string) string { return "s:" + esc(host) + "|" + esc(path) }

func goodJ() J {
	return J{halg: "HS256", hkid: "~", signer: "HS256:o32.1", exp: "3600", nbf: "~", iat: "~",
		aud: aud1("h.example", "/group/a/"), sub: "alice", incl: "~", perms: "present,op"}
}

const goodKeys = "oct:HS256:~:o32.1"

var keysets = []string{
	"~",
	"oct:HS256:~:o32.1",
	"oct:HS256:k1:o32.1",
	"oct:HS256:~:o32.1;oct:HS256:~:o32.2",
	"oct:HS256:k1:o32.1;oct:HS256:k2:o32.2",
	"oct:HS256:k1:o32.2;oct:HS256:k1:o32.1",
	"oct:HS256:~:o32.1;oct:HS384:~:o48.1;oct:HS512:~:o64.1",
	"oct:HS384:~:o48.1",
	"oct:HS512:k1:o64.1",
	"EC:ES256:~:e0",
	"EC:ES256:k1:e0;EC:ES256:k2:e1",
	"RSA:RS256:~:r0",
	"RSA:RS256:k2:r1;RSA:RS256:k1:r0",
	"RSA:RS256:k1:r0;oct:HS256:k1:o32.1;EC:ES256:k1:e0",
	// defective entries
	"oct:HS256:~:o48.1",
	"oct:HS384:~:o32.1",
	"oct:HS256:~:o32.1;oct:HS256:~:o31.2",
	"oct:HS256:~:o31.2;oct:HS256:~:o32.1",
	"oct:HS256:k1:o32.1;oct:HS256:k2:ob",
	"oct:HS256:k1:o32.1;oct:HS384:~:x",
	"RSA:HS256:~:r0",
	"oct:RS256:~:o32.1",
	"EC:HS256:~:e0",
	"oct:ES256:~:o32.1",
	"oct:none:~:o32.1",
	"EC:ES256:~:ec0",
	"EC:ES256:~:eo0",
	"EC:ES256:~:ex0",
	"RSA:RS256:~:rb0",
	"RSA:RS256:~:rx0",
	"~:HS256:~:o32.1",
	"~num:HS256:~:o32.1",
	"oct:~:~:o32.1",
	"oct:~num:~:o32.1",
	"oct:HS256:~num:o32.1",
	"oct:HS256:%:o32.1",
	"oct:HS256:~:x",
	"RSA:RS384:~:r0",
	"RSA:PS256:~:r0",
	"EC:ES384:~:e0",
	"OCT:HS256:~:o32.1",
	"oct:hs256:~:o32.1",
	"oct:%:~:o32.1",
}

var halgs = []string{"~", "~num", "%", "none", "HS256", "HS384", "HS512", "ES256", "RS256", "RS384", "PS256", "ES384", "EdDSA", "FOO", "hs256"}
var hkids = []string{"~", "k1", "k2", "%", "~num"}
var signers = []string{"HS256:o32.1", "HS256:o32.2", "HS384:o48.1", "HS512:o64.1", "HS256:o48.1", "HS384:o32.1", "HS256:o31.2",
	"ES256:e0", "ES256:e1", "RS256:r0", "RS256:r1", "RS384:r0", "PS256:r0", "HS256:p0", "HS256:q0",
	"~none", "~garbage", "~mal2", "~malb64", "~maljson", "~malsig"}

func signerAlg(s string) string {
	if s[0] == '~' {
		return "HS256"
	}
	return s[:strings.IndexByte(s, ':')]
}

var audHosts = []string{"h.example", "H.Example", "h.example:8443", "other.example", "h.example.evil.com", ""}
var canonHosts = []string{"", "h.example", "h.example:8443"}
var rawPaths = []string{"/group", "/group/a", "", "/", "/groupa/", "/group//", "/Group/a/", "/group/a//", "/group/a/../b/", "/group/ab/", "/group/a/b", "/groups/a/"}

func gen(t *common.Trace, e common.Engine, r *common.Rng, thorough bool) {
	do := func(f string, args ...any) string { return common.Do(t, e, fmt.Sprintf(f, args...)) }
	count := func(kind, res string) {
		if i := strings.IndexByte(res, ' '); i >= 0 {
			res = res[:i]
		}
		t.Count(kind + ":" + res)
	}
	newCase := func(f string, args ...any) {
		t.Case(fmt.Sprintf(f, args...))
		e.Reset()
	}
	L := 4
	if thorough {
		L = 5
	}
	all := names("ab/", L)
	small := names("ab/", 2)
	mid := names("ab/", 3)

	// A. Stateful.match, exhaustively: (token group, subgroups flag) x group
	for _, tg := range all {
		for sub := 0; sub < 2; sub++ {
			newCase("smatch-%s-%d", esc(tg), sub)
			for _, g := range all {
				count("smatch", do("smatch %s %d %s", esc(tg), sub, esc(g)))
			}
		}
	}
	// B. matchGroup, exhaustively on audience paths naming a group ...
	for _, tg := range all {
		for sub := 0; sub < 2; sub++ {
			newCase("matchgroup-%s-%d", esc(tg), sub)
			for _, g := range all {
				count("matchgroup", do("matchgroup %s %s %d", esc(audPath(tg)), esc(g), sub))
			}
		}
	}
	// ... and on malformed audience paths
	for _, pre := range []string{"/group/", "/group", "/groupa/", "/Group/", "", "/", "group/", "/group//"} {
		for _, suf := range []string{"", "/"} {
			newCase("matchgroup-raw-%s-%s", esc(pre), esc(suf))
			for _, m := range mid {
				for _, g := range small {
					for sub := 0; sub < 2; sub++ {
						count("matchgroup-raw", do("matchgroup %s %s %d", esc(pre+m+suf), esc(g), sub))
					}
				}
			}
		}
	}

	// C. Stateful.Check: scope x window, usernames and permissions rotating
	offsExp := []string{"~", "-3600", "-2", "2", "3600"}
	offsNbf := []string{"~", "-3600", "-2", "2", "3600"}
	users := []string{"~", "%", "alice", "bob%20x", "..%2Fx"}
	permss := []string{"~", "present", "present,op", "admin", "op,present,record,token", "%", "a%2Cb,c"}
	k := 0
	for _, tg := range small {
		for sub := 0; sub < 2; sub++ {
			newCase("scheck-%s-%d", esc(tg), sub)
			for _, g := range small {
				for _, ex := range offsExp {
					for _, nb := range offsNbf {
						k++
						count("scheck", do("scheck %s %d %s %s %s %s %s", esc(tg), sub, esc(g), ex, nb,
							users[k%len(users)], permss[(k/len(users))%len(permss)]))
					}
				}
			}
		}
	}

	// D. random longer, path-shaped names: the token group is derived from the group by cutting at and
	// next to component boundaries, appending, or changing one byte
	nD := 400
	if thorough {
		nD = 8000
	}
	for ci := 0; ci < nD; ci++ {
		newCase("rand-%d", ci)
		g := randName(r)
		for i := 0; i < 12; i++ {
			tg := derive(r, g)
			sub := r.Intn(2)
			count("smatch", do("smatch %s %d %s", esc(tg), sub, esc(g)))
			pth := audPath(tg)
			switch r.Intn(8) {
			case 0:
				pth = strings.TrimSuffix(pth, "/")
			case 1:
				pth = pth + "/"
			}
			count("matchgroup", do("matchgroup %s %s %d", esc(pth), esc(g), sub))
			count("scheck", do("scheck %s %d %s %s %s %s %s", esc(tg), sub, esc(g),
				common.Pick(r, "~", "-86400", "-3", "3", "86400", "3600"), common.Pick(r, "~", "~", "-86400", "-3", "3", "86400"),
				common.Pick(r, users...), common.Pick(r, permss...)))
		}
	}

	// D'. arbitrary bytes (Go strings are byte strings): NUL, DEL, non-UTF-8, '%', space
	nB := 300
	if thorough {
		nB = 6000
	}
	for ci := 0; ci < nB; ci++ {
		newCase("bytes-%d", ci)
		rb := func() string {
			b := make([]byte, r.Intn(7))
			for i := range b {
				b[i] = "\x00\x7f\x80\xff% /a/"[r.Intn(9)]
			}
			return string(b)
		}
		for i := 0; i < 10; i++ {
			g := rb()
			tg := g
			switch r.Intn(4) {
			case 0:
				tg = rb()
			case 1:
				tg = derive(r, g)
			case 2:
				if len(g) > 0 {
					tg = g[:r.Intn(len(g))]
				}
			}
			sub := r.Intn(2)
			count("smatch", do("smatch %s %d %s", esc(tg), sub, esc(g)))
			count("matchgroup", do("matchgroup %s %s %d", esc(audPath(tg)), esc(g), sub))
		}
	}

	// E. signature / key selection sweep with otherwise good claims:
	// (key set) x (header alg) x (signer), and (key set) x (header kid) x (signer) with the signer's alg in the header
	for ki, ks := range keysets {
		newCase("jwt-alg-%d", ki)
		for _, ha := range halgs {
			for _, sg := range signers {
				j := goodJ()
				j.halg, j.signer = ha, sg
				count("jwtcheck", do("jwtcheck %s %s %s %s", ks, j, esc("h.example"), "a"))
			}
		}
		newCase("jwt-kid-%d", ki)
		for _, hk := range hkids {
			for _, sg := range signers {
				j := goodJ()
				j.halg, j.hkid, j.signer = signerAlg(sg), hk, sg
				count("jwtcheck", do("jwtcheck %s %s %s %s", ks, j, esc("h.example"), "a"))
			}
		}
	}

	// F. claims sweep with a good key and signature
	newCase("jwt-window")
	for _, ex := range []string{"~", "~z", "~s", "-3600", "-7", "-2", "2", "3600"} {
		for _, nb := range []string{"~", "~z", "~s", "-3600", "-2", "3", "8", "3600"} {
			for _, ia := range []string{"~", "~s", "-3600", "3", "8", "3600"} {
				j := goodJ()
				j.exp, j.nbf, j.iat = ex, nb, ia
				count("jwtcheck", do("jwtcheck %s %s %s %s", goodKeys, j, esc("h.example"), "a"))
			}
		}
	}
	var paths []string
	for _, tg := range small {
		paths = append(paths, audPath(tg))
	}
	paths = append(paths, rawPaths...)
	for _, ah := range audHosts {
		for _, ch := range canonHosts {
			newCase("jwt-aud-%s-%s", esc(ah), esc(ch))
			for _, p := range paths {
				for _, g := range small {
					for incl := 0; incl < 2; incl++ {
						j := goodJ()
						j.aud, j.incl = aud1(ah, p), fmt.Sprint(incl)
						count("jwtcheck", do("jwtcheck %s %s %s %s", goodKeys, j, esc(ch), esc(g)))
					}
				}
			}
		}
	}
	newCase("jwt-aud-shapes")
	ent := func(h, p string) string { return esc(h) + "|" + esc(p) }
	auds := []string{"~", "~num", "a:", "a:~num", "s:!", "a:!", "a:!," + ent("h.example", "/group/a/"),
		"a:" + ent("other.example", "/group/a/") + "," + ent("h.example", "/group/b/"),
		"a:" + ent("other.example", "/group/a/") + "," + ent("h.example", "/group/b/") + "," + ent("h.example", "/group/a/"),
		"a:" + ent("h.example", "/group/a/") + ",~num",
		"a:" + ent("h.example", "/group/") + "," + ent("h.example", "/group/a/b/"),
		"a:" + ent("h.example", "/group/a/"), "s:" + ent("", "/group/a/"), "s:" + ent("h.example", "")}
	for _, a := range auds {
		for _, ch := range canonHosts {
			for _, g := range []string{"a", "b", "a/b", "ab"} {
				for _, incl := range []string{"~", "0", "1", "~s"} {
					j := goodJ()
					j.aud, j.incl = a, incl
					count("jwtcheck", do("jwtcheck %s %s %s %s", goodKeys, j, esc(ch), esc(g)))
				}
			}
		}
	}
	newCase("jwt-grants")
	subs := []string{"~", "~num", "%", "alice", "a%20b", "..%2Fx", "x%5Cy"}
	jperms := []string{"~", "~null", "~num", "~mixed", "~empty", "present", "present,op", "admin", "%", "op,present,record,token"}
	for _, s := range subs {
		for _, p := range jperms {
			j := goodJ()
			j.sub, j.perms = s, p
			count("jwtcheck", do("jwtcheck %s %s %s %s", goodKeys, j, esc("h.example"), "a"))
		}
	}

	// G. GetPermission, token branch: username rules
	tokUsers := []string{"~", "%", "alice", "bob", "a%2Fb", "..", "x%5Cy", "%2Fa"}
	cusers := []string{"~", "%", "alice", "bob", "carol", "..%2Fx", ".", "a%2Fb", "x%5Cy"}
	descUsers := []string{"~", "alice", "alice,bob", "carol", "%"}
	type validity struct{ tg, exp, nbf string }
	vals := []validity{{"a", "3600", "~"}, {"a", "-3600", "~"}, {"b", "3600", "~"}, {"a", "~", "~"}, {"a", "3600", "3600"}, {"", "3600", "-3600"}}
	for vi, v := range vals {
		for ti, tu := range tokUsers {
			newCase("getperms-%d-%d", vi, ti)
			sub := "0"
			if v.tg == "" {
				sub = "1"
			}
			do("sadd tok1 %s %s %s %s %s %s", esc(v.tg), sub, v.exp, v.nbf, tu, "present,op")
			for _, cu := range cusers {
				for _, du := range descUsers {
					count("getperms", do("getperms %s %s a %s tok1", du, esc("h.example"), cu))
				}
			}
			count("getperms", do("getperms ~ %s a alice nosuchtoken", esc("h.example")))
		}
	}
	for vi, v := range vals {
		newCase("getpermj-%d", vi)
		for _, tu := range tokUsers {
			for _, cu := range cusers {
				for _, du := range descUsers {
					j := goodJ()
					j.sub, j.exp, j.nbf = tu, v.exp, v.nbf
					j.aud = aud1("h.example", audPath(v.tg))
					if v.tg == "" {
						j.incl = "1"
					}
					count("getpermj", do("getpermj %s %s %s %s %s a", du, cu, goodKeys, j, esc("h.example")))
				}
			}
		}
	}
	newCase("getpermj-keys")
	for _, ks := range keysets {
		for _, sg := range []string{"HS256:o32.1", "HS256:o32.2", "ES256:e0", "RS256:r0", "~none", "~mal2"} {
			j := goodJ()
			j.halg, j.signer, j.sub = signerAlg(sg), sg, "%"
			count("getpermj", do("getpermj alice carol %s %s %s a", ks, j, esc("h.example")))
		}
	}
	// client-chosen usernames, exhaustively over {a . / \} (validUsername) with a token that carries no username
	unames := names("a./\\", L)
	newCase("usernames")
	do("sadd tok1 a 0 3600 ~ ~ present")
	for _, u := range unames {
		count("validuser", do("validuser %s", esc(u)))
		count("getperms", do("getperms %s %% a %s tok1", esc("a/a"), esc(u)))
	}

	// H. global administrator tokens
	gperms := []string{"admin", "op", "~", "op,admin", "Admin", "admin%20", "%"}
	ci := 0
	for _, tg := range []string{"", "a", "/", " "} {
		for sub := 0; sub < 2; sub++ {
			for _, w := range []validity{{"", "3600", "~"}, {"", "-3600", "~"}, {"", "~", "~"}, {"", "3600", "3600"}, {"", "3600", "-3600"}} {
				ci++
				newCase("globaladmin-%d", ci)
				for pi, p := range gperms {
					name := fmt.Sprintf("adm%d", pi)
					do("sadd %s %s %d %s %s %s %s", name, esc(tg), sub, w.exp, w.nbf, common.Pick(r, "~", "root"), p)
					count("globaladmin", do("globaladmin %s", name))
				}
				count("globaladmin", do("globaladmin nosuchtoken"))
			}
		}
	}
	newCase("globaladminj")
	for _, sg := range []string{"HS256:o32.1", "ES256:e0", "RS256:r0", "~none", "~garbage", "~mal2"} {
		for _, ha := range []string{"HS256", "ES256", "RS256", "none", "~"} {
			for _, ch := range canonHosts {
				j := goodJ()
				j.halg, j.signer, j.aud, j.incl, j.perms = ha, sg, aud1("h.example", "/group/"), "1", "admin"
				count("globaladminj", do("globaladminj %s %s", j, esc(ch)))
			}
		}
	}

	// I. random scenarios: a valid scenario with 0, 1 or 2 random defects
	type kc struct{ ks, signer string }
	goodPairs := []kc{
		{"oct:HS256:~:o32.1", "HS256:o32.1"}, {"oct:HS256:k1:o32.1", "HS256:o32.1"},
		{"oct:HS256:k1:o32.1;oct:HS256:k2:o32.2", "HS256:o32.2"}, {"oct:HS256:~:o32.1;oct:HS256:~:o32.2", "HS256:o32.2"},
		{"oct:HS256:~:o32.1;oct:HS384:~:o48.1;oct:HS512:~:o64.1", "HS384:o48.1"},
		{"oct:HS256:~:o32.1;oct:HS384:~:o48.1;oct:HS512:~:o64.1", "HS512:o64.1"},
		{"EC:ES256:~:e0", "ES256:e0"}, {"EC:ES256:k1:e0;EC:ES256:k2:e1", "ES256:e1"},
		{"RSA:RS256:~:r0", "RS256:r0"}, {"RSA:RS256:k2:r1;RSA:RS256:k1:r0", "RS256:r1"},
		{"RSA:RS256:k1:r0;oct:HS256:k1:o32.1;EC:ES256:k1:e0", "ES256:e0"},
		{"RSA:RS256:k1:r0;oct:HS256:k1:o32.1;EC:ES256:k1:e0", "HS256:o32.1"},
	}
	kidOf := func(ks, signer string) string { // the kid of the entry holding the signer's material, if any
		mat := signer[strings.IndexByte(signer, ':')+1:]
		for _, k := range strings.Split(ks, ";") {
			f := strings.Split(k, ":")
			if len(f) == 4 && f[3] == mat && f[2][0] != '~' {
				return f[2]
			}
		}
		return "~"
	}
	ancestor := func(g string) string { // a proper ancestor of g at a component boundary ("" if none)
		idx := []int{}
		for i := 0; i < len(g); i++ {
			if g[i] == '/' {
				idx = append(idx, i)
			}
		}
		if len(idx) == 0 {
			return ""
		}
		return g[:idx[r.Intn(len(idx))]]
	}
	nI := 1500
	if thorough {
		nI = 30000
	}
	for ci := 0; ci < nI; ci++ {
		newCase("mix-%d", ci)
		for i := 0; i < 6; i++ {
			g := randName(r)
			if r.Intn(3) == 0 {
				g = common.Pick(r, mid[1:]...)
			}
			pair := common.Pick(r, goodPairs...)
			ks := pair.ks
			j := goodJ()
			j.signer = pair.signer
			j.halg = signerAlg(j.signer)
			j.hkid = common.Pick(r, "~", kidOf(ks, j.signer))
			tg := g
			j.incl = common.Pick(r, "~", "0", "1")
			if r.Intn(2) == 0 {
				tg, j.incl = ancestor(g), "1"
			}
			ch := common.Pick(r, canonHosts...)
			ah := ch
			if ch == "" || r.Intn(4) == 0 {
				ah = common.Pick(r, audHosts...)
				if ch != "" {
					ah = strings.ToUpper(ch)
				}
			}
			ents := []string{ent(ah, audPath(tg))}
			j.exp = common.Pick(r, "3600", "2", "-2", "86400")
			j.nbf = common.Pick(r, "~", "~", "-3600", "3", "~z")
			j.iat = common.Pick(r, "~", "~", "-3600", "3")
			j.sub = common.Pick(r, "~", "%", "alice", "bob", "a%20b")
			j.perms = common.Pick(r, jperms[5:]...)
			cu := common.Pick(r, "~", "%", "alice", "carol", "dave")
			du := common.Pick(r, descUsers...)
			for nd := r.Weighted(40, 40, 20); nd > 0; nd-- {
				d := r.Intn(15)
				t.Count(fmt.Sprintf("defect:%d", d))
				switch d {
				case 0:
					ks = common.Pick(r, keysets...)
				case 1:
					j.signer = common.Pick(r, signers...)
				case 2:
					j.halg = common.Pick(r, halgs...)
				case 3:
					j.hkid = common.Pick(r, hkids...)
				case 4:
					j.exp = common.Pick(r, "-7", "-3600", "~", "~z", "~s")
				case 5:
					j.nbf = common.Pick(r, "8", "3600", "~s")
				case 6:
					j.iat = common.Pick(r, "8", "3600", "~s")
				case 7:
					ents[0] = ent(common.Pick(r, audHosts...), audPath(tg))
				case 8:
					ents[0] = ent(ah, audPath(derive(r, g)))
				case 9:
					ents[0] = ent(ah, common.Pick(r, rawPaths...))
				case 10:
					j.incl = common.Pick(r, "~", "0", "1", "~s")
				case 11:
					j.sub = common.Pick(r, subs...)
				case 12:
					j.perms = common.Pick(r, jperms...)
				case 13:
					ch = common.Pick(r, canonHosts...)
				case 14:
					cu = common.Pick(r, cusers...)
				}
			}
			for n := r.Intn(3); n > 0; n-- { // decoy audiences
				decoy := common.Pick(r, "!", ent("other.example", audPath(tg)), ent(ah, audPath(g+"x")), ent(ah, "/group/zz/"))
				if r.Bool() {
					ents = append(ents, decoy)
				} else {
					ents = append([]string{decoy}, ents...)
				}
			}
			if len(ents) == 1 && r.Bool() {
				j.aud = "s:" + ents[0]
			} else {
				j.aud = "a:" + strings.Join(ents, ",")
			}
			if r.Intn(3) == 0 {
				count("getpermj", do("getpermj %s %s %s %s %s %s", du, cu, ks, j, esc(ch), esc(g)))
			} else {
				count("jwtcheck", do("jwtcheck %s %s %s %s", ks, j, esc(ch), esc(g)))
			}
		}
		// stateful tokens through the store
		g := randName(r)
		if r.Intn(3) == 0 {
			g = common.Pick(r, mid[1:]...)
		}
		for i := 0; i < 4; i++ {
			tg, sub := g, r.Intn(2)
			switch r.Intn(4) {
			case 0:
				tg, sub = ancestor(g), 1
			case 1:
				tg = derive(r, g)
			}
			name := fmt.Sprintf("t%d", i)
			do("sadd %s %s %d %s %s %s %s", name, esc(tg), sub, common.Pick(r, "3600", "3600", "2", "86400", "-2", "-3600", "~"),
				common.Pick(r, "~", "~", "-3600", "-2", "-2", "2", "3600"), common.Pick(r, "~", "~", "%", "alice", "bob", "a%2Fb", ".."), common.Pick(r, permss...))
			count("getperms", do("getperms %s %s %s %s %s", common.Pick(r, descUsers...), esc(common.Pick(r, canonHosts...)), esc(g),
				common.Pick(r, "~", "%", "alice", "carol", "dave", "..%2Fx"), name))
			count("globaladmin", do("globaladmin %s", name))
		}
	}
}

// randName returns a path-shaped group name of 1..4 components.
func randName(r *common.Rng) string {
	n := r.Range(1, 4)
	parts := make([]string, n)
	for i := range parts {
		l := r.Range(1, 4)
		b := make([]byte, l)
		for j := range b {
			b[j] = "abcAB-_.0"[r.Intn(9)]
		}
		parts[i] = string(b)
	}
	return strings.Join(parts, "/")
}

// derive returns a token group related to g.
func derive(r *common.Rng, g string) string {
	switch r.Intn(10) {
	case 0:
		return g
	case 1:
		return ""
	case 2, 3: // cut at a component boundary
		idx := []int{}
		for i := 0; i < len(g); i++ {
			if g[i] == '/' {
				idx = append(idx, i)
			}
		}
		if len(idx) == 0 {
			return g
		}
		return g[:idx[r.Intn(len(idx))]]
	case 4: // cut anywhere
		if len(g) == 0 {
			return g
		}
		return g[:r.Intn(len(g))]
	case 5: // cut just after a slash
		if i := strings.IndexByte(g, '/'); i >= 0 {
			return g[:i+1]
		}
		return g + "/"
	case 6:
		return g + string("ab/"[r.Intn(3)])
	case 7:
		if len(g) == 0 {
			return "a"
		}
		b := []byte(g)
		b[r.Intn(len(b))] = "ab/"[r.Intn(3)]
		return string(b)
	case 8:
		return g + "/" + randName(r)
	}
	return randName(r)
}

// Margins: the code under test reads time.Now() itself.  Stateful tokens compare at full resolution, so
// offsets of +-2 s leave 2 s of slack.  JWT NumericDates are truncated to whole seconds when minted and the
// validator applies a 5 s leeway: exp offsets -2 (accepted until mint+2 s) and -7 (expired since 2 s), and
// nbf/iat offsets 3 (valid since 2 s) and 8 (not valid for another 2 s) keep the same slack.
