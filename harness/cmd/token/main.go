// Engine `token` (C09): the real token scope / validity-window / permission
// code vs the Lean model (lean/GaleneVerif/Model/Token.lean).
//
//	smatch <tokgroup> <sub> <group>                          => 0|1          (*Stateful).match through the shim
//	matchgroup <path> <group> <sub>                          => 0|1          token.matchGroup through the shim
//	scheck <tokgroup> <sub> <group> <exp> <nbf> <user> <perms>
//	                                                         => ok <user> <perms> | badgroup | expired | future
//	sadd <name> <tokgroup> <sub> <exp> <nbf> <user> <perms>  => ok|err       token.Update (JSONL store, re-read from disk)
//	jwtcheck <keyset> <jwt×10> <host> <group>                => ok <user> <perms> | parse:<class> | check:<class>
//	getperms <users> <host> <group> <cuser> <tokname>        => ok <user> <perms> | <class>   Description.GetPermission
//	getpermj <users> <cuser> <keyset> <jwt×10> <host> <group>=> ok <user> <perms> | <class>
//	globaladmin <tokname>                                    => 1|0|err:<class>   webserver.checkGlobalAdminToken
//	globaladminj <jwt×10> <host>                             => 1|0|err:<class>
//	validuser <name>                                         => 0|1          group.validUsername
//
// <jwt×10> = <halg> <hkid> <signer> <exp> <nbf> <iat> <aud> <sub> <incl> <perms>; the harness mints the token
// itself so the ground truth of the signature is known by construction (see mint).
// Strings are escaped as %XX outside [A-Za-z0-9_.-]; the empty string is `%`; `~…` tokens are "absent"/special.
// Times are integer offsets in seconds from time.Now() at execution (the code reads the clock itself);
// generators stay >= 2 s away from every boundary.
package main

import (
	"crypto/ecdsa"
	"crypto/elliptic"
	"crypto/rand"
	"crypto/rsa"
	"crypto/x509"
	"encoding/base64"
	"encoding/json"
	"errors"
	"fmt"
	"math/big"
	"os"
	"path/filepath"
	"strconv"
	"strings"
	"time"

	"github.com/golang-jwt/jwt/v5"

	"github.com/jech/galene/group"
	"github.com/jech/galene/token"
	"github.com/jech/galene/webserver"
	"github.com/jech/galene/zzverif/common"
)

// ---------------------------------------------------------------- escaping

func safeByte(c byte) bool {
	return c >= 'a' && c <= 'z' || c >= 'A' && c <= 'Z' || c >= '0' && c <= '9' || c == '_' || c == '.' || c == '-'
}

func esc(s string) string {
	if s == "" {
		return "%"
	}
	var b strings.Builder
	for i := 0; i < len(s); i++ {
		if safeByte(s[i]) {
			b.WriteByte(s[i])
		} else {
			fmt.Fprintf(&b, "%%%02X", s[i])
		}
	}
	return b.String()
}

func unesc(s string) string {
	if s == "%" {
		return ""
	}
	var b strings.Builder
	for i := 0; i < len(s); i++ {
		if s[i] == '%' {
			if i+2 >= len(s) {
				panic("bad escape in op: " + s)
			}
			v, err := strconv.ParseUint(s[i+1:i+3], 16, 8)
			if err != nil {
				panic("bad escape in op: " + s)
			}
			b.WriteByte(byte(v))
			i += 2
		} else {
			b.WriteByte(s[i])
		}
	}
	return b.String()
}

func optStr(s string) *string {
	if s == "~" {
		return nil
	}
	v := unesc(s)
	return &v
}

func escList(xs []string) string {
	if len(xs) == 0 {
		return "~"
	}
	ys := make([]string, len(xs))
	for i, x := range xs {
		ys[i] = esc(x)
	}
	return strings.Join(ys, ",")
}

func unescList(s string) []string {
	if s == "~" {
		return nil
	}
	parts := strings.Split(s, ",")
	for i := range parts {
		parts[i] = unesc(parts[i])
	}
	return parts
}

func optTime(now time.Time, s string) *time.Time {
	if s == "~" {
		return nil
	}
	t := now.Add(time.Duration(common.Atoi(s)) * time.Second)
	return &t
}

// ---------------------------------------------------------------- key pool

type pool struct {
	ec  []*ecdsa.PrivateKey
	rsa []*rsa.PrivateKey
}

var keys pool

func initPool() {
	for i := 0; i < 2; i++ {
		k, err := ecdsa.GenerateKey(elliptic.P256(), rand.Reader)
		if err != nil {
			panic(err)
		}
		keys.ec = append(keys.ec, k)
		r, err := rsa.GenerateKey(rand.Reader, 2048)
		if err != nil {
			panic(err)
		}
		keys.rsa = append(keys.rsa, r)
	}
}

// hmacSecret derives the L-byte secret number id; no zero bytes (HMAC zero-pads keys), and the
// bytes depend on L so that secrets of different lengths never share a prefix.
func hmacSecret(l, id int) []byte {
	b := make([]byte, l)
	for i := range b {
		b[i] = byte(1 + (id*37+l*11+i*7+i*i)%255)
	}
	return b
}

func b64(b []byte) string { return base64.RawURLEncoding.EncodeToString(b) }

func matID(mat string, skip int) int { return common.Atoi(mat[skip:]) }

// parseOct parses "o<L>.<id>".
func parseOct(mat string) (int, int) {
	p := strings.SplitN(mat[1:], ".", 2)
	return common.Atoi(p[0]), common.Atoi(p[1])
}

// keyEntry builds one authKeys entry from "<kty>:<alg>:<kid>:<mat>".
func keyEntry(desc string) map[string]any {
	f := strings.Split(desc, ":")
	if len(f) != 4 {
		panic("bad key entry " + desc)
	}
	m := map[string]any{}
	set := func(name, v string) {
		switch {
		case v == "~":
		case v == "~num":
			m[name] = float64(5)
		default:
			m[name] = unesc(v)
		}
	}
	set("kty", f[0])
	set("alg", f[1])
	set("kid", f[2])
	mat := f[3]
	ecFields := func(id int, crv string, offCurve, noY bool) {
		pub := keys.ec[id].PublicKey
		m["crv"] = crv
		m["x"] = b64(pub.X.Bytes())
		y := new(big.Int).Set(pub.Y)
		if offCurve {
			y.Add(y, big.NewInt(1))
		}
		if !noY {
			m["y"] = b64(y.Bytes())
		}
	}
	switch {
	case mat == "x":
	case mat == "ob":
		m["k"] = "!!!"
	case mat[0] == 'o':
		l, id := parseOct(mat)
		m["k"] = b64(hmacSecret(l, id))
	case strings.HasPrefix(mat, "ec"):
		ecFields(matID(mat, 2), "P-384", false, false)
	case strings.HasPrefix(mat, "eo"):
		ecFields(matID(mat, 2), "P-256", true, false)
	case strings.HasPrefix(mat, "ex"):
		ecFields(matID(mat, 2), "P-256", false, true)
	case mat[0] == 'e':
		ecFields(matID(mat, 1), "P-256", false, false)
	case strings.HasPrefix(mat, "rb"):
		pub := keys.rsa[matID(mat, 2)].PublicKey
		m["n"] = b64(pub.N.Bytes())
		m["e"] = b64([]byte{1, 0, 0, 0, 0, 0, 0, 0, 1})
	case strings.HasPrefix(mat, "rx"):
		pub := keys.rsa[matID(mat, 2)].PublicKey
		m["n"] = b64(pub.N.Bytes())
	case mat[0] == 'r':
		pub := keys.rsa[matID(mat, 1)].PublicKey
		m["n"] = b64(pub.N.Bytes())
		m["e"] = b64(big.NewInt(int64(pub.E)).Bytes())
	default:
		panic("bad key material " + mat)
	}
	return m
}

func keySet(s string) []map[string]any {
	if s == "~" {
		return nil
	}
	var ks []map[string]any
	for _, d := range strings.Split(s, ";") {
		ks = append(ks, keyEntry(d))
	}
	return ks
}

// signingKey returns the private/secret material named by mat for `method`.
func signingKey(method jwt.SigningMethod, mat string) any {
	switch {
	case mat[0] == 'o':
		l, id := parseOct(mat)
		return hmacSecret(l, id)
	case mat[0] == 'p': // HMAC keyed with the DER encoding of an RSA public key (algorithm-confusion attack)
		der, err := x509.MarshalPKIXPublicKey(&keys.rsa[matID(mat, 1)].PublicKey)
		if err != nil {
			panic(err)
		}
		return der
	case mat[0] == 'q': // HMAC keyed with the DER encoding of an EC public key
		der, err := x509.MarshalPKIXPublicKey(&keys.ec[matID(mat, 1)].PublicKey)
		if err != nil {
			panic(err)
		}
		return der
	case mat[0] == 'e':
		return keys.ec[matID(mat, 1)]
	case mat[0] == 'r':
		return keys.rsa[matID(mat, 1)]
	}
	panic("bad signer material " + mat)
}

// ---------------------------------------------------------------- minting

// mint builds the token string described by the 10 jwt tokens
// <halg> <hkid> <signer> <exp> <nbf> <iat> <aud> <sub> <incl> <perms>.
func mint(f []string, now time.Time) string {
	if len(f) != 10 {
		panic("bad jwt spec")
	}
	halg, hkid, signer := f[0], f[1], f[2]
	hdr := map[string]any{"typ": "JWT"}
	switch halg {
	case "~":
	case "~num":
		hdr["alg"] = 5
	default:
		hdr["alg"] = unesc(halg)
	}
	switch hkid {
	case "~":
	case "~num":
		hdr["kid"] = 5
	default:
		hdr["kid"] = unesc(hkid)
	}
	claims := map[string]any{}
	numClaim := func(name, v string) {
		switch v {
		case "~":
		case "~z":
			claims[name] = 0
		case "~s":
			claims[name] = "soon"
		default:
			claims[name] = now.Unix() + int64(common.Atoi(v))
		}
	}
	numClaim("exp", f[3])
	numClaim("nbf", f[4])
	numClaim("iat", f[5])
	audURL := func(e string) any {
		if e == "~num" {
			return 5
		}
		if e == "!" {
			return "http://[bad"
		}
		p := strings.Split(e, "|")
		if len(p) != 2 {
			panic("bad aud entry " + e)
		}
		return "https://" + unesc(p[0]) + unesc(p[1])
	}
	aud := f[6]
	switch {
	case aud == "~":
	case aud == "~num":
		claims["aud"] = 5
	case aud == "a:":
		claims["aud"] = []any{}
	case strings.HasPrefix(aud, "s:"):
		claims["aud"] = audURL(aud[2:])
	case strings.HasPrefix(aud, "a:"):
		var l []any
		for _, e := range strings.Split(aud[2:], ",") {
			l = append(l, audURL(e))
		}
		claims["aud"] = l
	default:
		panic("bad aud " + aud)
	}
	switch f[7] {
	case "~":
	case "~num":
		claims["sub"] = 5
	default:
		claims["sub"] = unesc(f[7])
	}
	switch f[8] {
	case "~":
	case "0":
		claims["include-subgroups"] = false
	case "1":
		claims["include-subgroups"] = true
	case "~s":
		claims["include-subgroups"] = "true"
	default:
		panic("bad incl " + f[8])
	}
	switch f[9] {
	case "~":
	case "~null":
		claims["permissions"] = nil
	case "~num":
		claims["permissions"] = 5
	case "~mixed":
		claims["permissions"] = []any{"present", 5}
	case "~empty":
		claims["permissions"] = []any{}
	default:
		var l []any
		for _, p := range unescList(f[9]) {
			l = append(l, p)
		}
		claims["permissions"] = l
	}
	hj, err := json.Marshal(hdr)
	if err != nil {
		panic(err)
	}
	cj, err := json.Marshal(claims)
	if err != nil {
		panic(err)
	}
	ss := b64(hj) + "." + b64(cj)
	switch signer {
	case "~none":
		return ss + "."
	case "~garbage":
		return ss + "." + b64(hmacSecret(32, 99))
	case "~mal2":
		return ss
	case "~malb64":
		return "!!!." + b64(cj) + "." + b64(hmacSecret(32, 99))
	case "~maljson":
		return b64([]byte("notjson")) + "." + b64(cj) + "." + b64(hmacSecret(32, 99))
	case "~malsig":
		return ss + ".!!!"
	}
	p := strings.Split(signer, ":")
	if len(p) != 2 {
		panic("bad signer " + signer)
	}
	method := jwt.GetSigningMethod(p[0])
	if method == nil {
		panic("unknown signing method " + p[0])
	}
	sig, err := method.Sign(ss, signingKey(method, p[1]))
	if err != nil {
		panic("cannot sign: " + err.Error())
	}
	return ss + "." + b64(sig)
}

// ---------------------------------------------------------------- errors

func classify(err error) string {
	var na *group.NotAuthorisedError
	switch {
	case err == nil:
		return "nil"
	case errors.Is(err, group.ErrUsernameRequired):
		return "usernamerequired"
	case err == error(group.ErrDuplicateUsername):
		return "duplicate"
	case errors.As(err, &na):
		if in := errors.Unwrap(err); in != nil {
			return "notauth:" + classify(in)
		}
		return "notauth"
	case errors.Is(err, os.ErrNotExist):
		return "notfound"
	case errors.Is(err, jwt.ErrTokenUnverifiable):
		return "unverifiable"
	case errors.Is(err, jwt.ErrTokenSignatureInvalid):
		return "badsig"
	case errors.Is(err, jwt.ErrTokenInvalidClaims):
		return "claims"
	case errors.Is(err, jwt.ErrInvalidType):
		return "badclaim"
	}
	switch err.Error() {
	case "token for bad group":
		return "badgroup"
	case "token has expired":
		return "expired"
	case "token is in the future":
		return "future"
	case "token for wrong group":
		return "wronggroup"
	case "invalid 'permissions' field":
		return "badperms"
	case "invalid username":
		return "invalidusername"
	}
	return "other:" + strings.ReplaceAll(err.Error(), " ", "_")
}

// ---------------------------------------------------------------- engine

type eng struct {
	dir     string
	tokfile string
}

func newEng() *eng {
	root := os.Getenv("VERIF_ROOT")
	var dir string
	var err error
	if root != "" {
		dir = filepath.Join(root, ".build", fmt.Sprintf("token-data-%d", os.Getpid()))
		err = os.MkdirAll(dir, 0o700)
	} else {
		dir, err = os.MkdirTemp("", "verif-token-")
	}
	if err != nil {
		panic(err)
	}
	e := &eng{dir: dir, tokfile: filepath.Join(dir, "var", "tokens.jsonl")}
	group.DataDirectory = filepath.Join(dir, "data") // never created: no config.json
	group.Directory = filepath.Join(dir, "groups")
	initPool()
	return e
}

func (e *eng) cleanup() { os.RemoveAll(e.dir) }

func (e *eng) Reset() {
	os.Remove(e.tokfile)
	token.SetStatefulFilename(e.tokfile)
	group.VerifTokSetCanonicalHost("")
}

func okRes(u string, p []string) string { return "ok " + esc(u) + " " + escList(p) }

func description(users string, ks []map[string]any) *group.Description {
	d := &group.Description{AuthKeys: ks}
	if users != "~" {
		d.Users = map[string]group.UserDescription{}
		for _, u := range unescList(users) {
			d.Users[u] = group.UserDescription{}
		}
	}
	return d
}

func (e *eng) Exec(op []string) string {
	b := common.B2s
	switch op[0] {
	case "smatch":
		return b(token.VerifTokMatch(unesc(op[1]), op[2] == "1", unesc(op[3])))
	case "matchgroup":
		return b(token.VerifTokMatchGroup(unesc(op[1]), unesc(op[2]), op[3] == "1"))
	case "validuser":
		return b(group.VerifTokValidUsername(unesc(op[1])))
	case "scheck":
		now := time.Now()
		t := &token.Stateful{
			Token: "t", Group: unesc(op[1]), IncludeSubgroups: op[2] == "1",
			Expires: optTime(now, op[4]), NotBefore: optTime(now, op[5]),
			Username: optStr(op[6]), Permissions: unescList(op[7]),
		}
		u, p, err := t.Check("", unesc(op[3]))
		if err != nil {
			return classify(err)
		}
		return okRes(u, p)
	case "sadd":
		now := time.Now()
		t := &token.Stateful{
			Token: unesc(op[1]), Group: unesc(op[2]), IncludeSubgroups: op[3] == "1",
			Expires: optTime(now, op[4]), NotBefore: optTime(now, op[5]),
			Username: optStr(op[6]), Permissions: unescList(op[7]),
		}
		_, err := token.Update(t, "")
		// forget the cached state so that the next lookup re-reads the JSONL file
		token.SetStatefulFilename(e.tokfile)
		if err != nil {
			return "err"
		}
		return "ok"
	case "jwtcheck":
		ks := keySet(op[1])
		tok := mint(op[2:12], time.Now())
		t, err := token.Parse(tok, ks)
		if err != nil {
			return "parse:" + classify(err)
		}
		u, p, err := t.Check(unesc(op[12]), unesc(op[13]))
		if err != nil {
			return "check:" + classify(err)
		}
		return okRes(u, p)
	case "getperms":
		group.VerifTokSetCanonicalHost(unesc(op[2]))
		d := description(op[1], nil)
		u, p, err := d.GetPermission(unesc(op[3]), group.ClientCredentials{Username: optStr(op[4]), Token: unesc(op[5])})
		if err != nil {
			return classify(err)
		}
		return okRes(u, p)
	case "getpermj":
		group.VerifTokSetCanonicalHost(unesc(op[14]))
		d := description(op[1], keySet(op[3]))
		tok := mint(op[4:14], time.Now())
		u, p, err := d.GetPermission(unesc(op[15]), group.ClientCredentials{Username: optStr(op[2]), Token: tok})
		if err != nil {
			return classify(err)
		}
		return okRes(u, p)
	case "globaladmin":
		ok, err := webserver.VerifTokCheckGlobalAdminToken(unesc(op[1]))
		if err != nil {
			return "err:" + classify(err)
		}
		return b(ok)
	case "globaladminj":
		group.VerifTokSetCanonicalHost(unesc(op[11]))
		ok, err := webserver.VerifTokCheckGlobalAdminToken(mint(op[1:11], time.Now()))
		if err != nil {
			return "err:" + classify(err)
		}
		return b(ok)
	}
	panic("unknown op " + op[0])
}

func main() {
	e := newEng()
	defer e.cleanup()
	common.Main(e, gen)
}
