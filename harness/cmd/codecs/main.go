// Engine `codecs`: real codecs.PacketFlags / RewritePacket / Keyframe /
// KeyframeDimensions and pion's rtp.Packet.Unmarshal vs the Lean model (C02, C12).
package main

import (
	"fmt"
	"strings"

	"github.com/pion/rtp"

	"github.com/jech/galene/codecs"
	"github.com/jech/galene/zzverif/common"
)

type eng struct{}

func (e *eng) Reset() {}

func cname(s string) string {
	if s == "-" {
		return ""
	}
	return s
}

func (e *eng) Exec(op []string) string {
	b := common.B2s
	switch op[0] {
	case "rtp":
		var p rtp.Packet
		buf := common.Unhex(op[1])
		err := p.Unmarshal(buf)
		if err != nil {
			return "err"
		}
		start := len(buf) - len(p.Payload) - int(p.PaddingSize)
		return fmt.Sprintf("%s %s %d %d", b(p.Marker), b(p.Extension), start, start+len(p.Payload))
	case "flags":
		f, err := codecs.PacketFlags(cname(op[1]), common.Unhex(op[2]))
		if err != nil {
			return "err"
		}
		return fmt.Sprintf("%d %s %s %s %s %d %d %d %s %s %s %s", f.Seqno, b(f.Marker), b(f.Start), b(f.End),
			b(f.Keyframe), f.Pid, f.Tid, f.Sid, b(f.TidUpSync), b(f.SidUpSync), b(f.SidNonReference), b(f.Discardable))
	case "rewrite":
		data := common.Unhex(op[2])
		status := "ok"
		func() {
			defer func() {
				if r := recover(); r != nil {
					status = "panic"
				}
			}()
			err := codecs.RewritePacket(cname(op[1]), data, op[3] != "0", uint16(common.Atoi(op[4])), uint16(common.Atoi(op[5])))
			if err != nil {
				status = "err"
			}
		}()
		return status + " " + common.Hex(data)
	case "keyframe":
		p := rtp.Packet{Payload: common.Unhex(op[2])}
		if p.Payload == nil {
			p.Payload = []byte{}
		}
		kf, known := codecs.Keyframe(cname(op[1]), &p)
		return b(kf) + " " + b(known)
	case "dims":
		p := rtp.Packet{Payload: common.Unhex(op[2])}
		if p.Payload == nil {
			p.Payload = []byte{}
		}
		w, h := codecs.KeyframeDimensions(cname(op[1]), &p)
		return fmt.Sprintf("%d %d", w, h)
	}
	panic("unknown op " + op[0])
}

func codecTok(s string) string {
	if s == "" {
		return "-"
	}
	return s
}

func genPayload(r *common.Rng, codec string) []byte {
	switch strings.ToLower(codec) {
	case "video/vp8":
		return common.GenVP8(r).Bytes()
	case "video/vp9":
		return common.GenVP9(r).Bytes()
	case "video/h264":
		return common.GenH264(r)
	case "video/av1":
		return common.GenAV1(r)
	}
	switch r.Intn(3) {
	case 0:
		return common.GenVP8(r).Bytes()
	case 1:
		return common.GenVP9(r).Bytes()
	}
	return common.RandBytes(r, r.Intn(40))
}

func gen(t *common.Trace, e common.Engine, r *common.Rng, thorough bool) {
	ncases := 6000
	if thorough {
		ncases = 120000
	}
	for ci := 0; ci < ncases; ci++ {
		t.Case(fmt.Sprint(ci))
		do := func(f string, args ...any) string { return common.Do(t, e, fmt.Sprintf(f, args...)) }
		codec := common.Pick(r, common.CodecNames...)
		if r.Intn(2) == 0 {
			codec = common.Pick(r, "video/vp8", "video/vp9")
		}
		payload := genPayload(r, codec)
		hdr := common.GenHdr(r, r.Intn(3) == 0)
		pkt := hdr.Build(payload)
		stream := r.Weighted(70, 15, 10, 5)
		switch stream {
		case 1: // truncation at a random offset
			if len(pkt) > 0 {
				pkt = pkt[:r.Intn(len(pkt))]
			}
		case 2: // truncation near the header/descriptor boundary
			cut := 12 + hdr.CSRC*4 + r.Intn(12)
			if cut < len(pkt) {
				pkt = pkt[:cut]
			}
		case 3:
			pkt = common.RandBytes(r, common.Pick(r, 0, 3, 4, 11, 12, 13, 20, 60))
		}
		t.Count(fmt.Sprintf("stream:%d", stream))
		t.Count("codec:" + strings.ToLower(codecTok(codec)))
		h := common.Hex(pkt)
		do("rtp %s", h)
		res := do("flags %s %s", codecTok(codec), h)
		if res == "err" {
			t.Count("flags:err")
		} else {
			t.Count("flags:ok")
		}
		delta := common.Pick(r, 0, 1, 1, 2, 5, 0x7F, 0x80, 0xFF, 0x100, 0x7FFF, 0xFFFF, r.Intn(65536))
		res = do("rewrite %s %s %d %d %d", codecTok(codec), h, r.Intn(2), r.Intn(65536), delta)
		t.Count("rewrite:" + strings.Fields(res)[0])
		ph := common.Hex(payload)
		if stream != 0 && len(payload) > 0 {
			ph = common.Hex(payload[:r.Intn(len(payload))])
		}
		t.Count("keyframe:" + strings.ReplaceAll(do("keyframe %s %s", codecTok(codec), ph), " ", ""))
		do("dims %s %s", codecTok(codec), ph)
	}
}

func main() { common.Main(&eng{}, gen) }
