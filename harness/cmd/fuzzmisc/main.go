// Engine `fuzzmisc`: parsers that have no Lean model, run under recover() on
// structured and malformed inputs (C12, exploration part): sdpfrag (WHIP
// trickle-ICE fragments) and pion's RTCP unmarshaller as galene's listeners call it.
package main

import (
	"bytes"
	"fmt"
	"strings"

	"github.com/pion/rtcp"
	"github.com/pion/sdp/v3"
	"github.com/pion/webrtc/v4"

	"github.com/jech/galene/sdpfrag"
	"github.com/jech/galene/zzverif/common"
)

type eng struct{}

func (e *eng) Reset() {}

const sampleSDP = "v=0\r\no=- 1 1 IN IP4 127.0.0.1\r\ns=-\r\nt=0 0\r\na=group:BUNDLE 0 1\r\n" +
	"m=audio 9 UDP/TLS/RTP/SAVPF 111\r\nc=IN IP4 0.0.0.0\r\na=mid:0\r\na=ice-ufrag:abcd\r\na=ice-pwd:0123456789abcdef012345\r\n" +
	"m=video 9 UDP/TLS/RTP/SAVPF 96\r\nc=IN IP4 0.0.0.0\r\na=mid:1\r\na=ice-ufrag:abcd\r\na=ice-pwd:0123456789abcdef012345\r\n"

func (e *eng) Exec(op []string) string {
	switch op[0] {
	case "sdpfrag":
		var f sdpfrag.SDPFrag
		err := f.Unmarshal(common.Unhex(op[1]))
		if err != nil {
			return "err"
		}
		f.UFragPwd()
		n := len(f.AllCandidates())
		_, merr := f.Marshal()
		var s sdp.SessionDescription
		if s.Unmarshal([]byte(sampleSDP)) == nil {
			s2, _ := sdpfrag.PatchSDP(s, f)
			sdpfrag.FromSDP(s2)
			sdpfrag.SDPUFragPwd(s2)
		}
		if merr != nil {
			return fmt.Sprintf("ok %d marshal-err", n)
		}
		return fmt.Sprintf("ok %d", n)
	case "sdpparse":
		return sdpParse(common.Unhex(op[1]))
	case "sdplong":
		b := append([]byte(nil), common.Unhex(op[1])...)
		b = append(b, bytes.Repeat([]byte{byte(common.Atoi(op[2]))}, common.Atoi(op[3]))...)
		b = append(b, common.Unhex(op[4])...)
		return sdpParse(b)
	case "rtcp":
		ps, err := rtcp.Unmarshal(common.Unhex(op[1]))
		if err != nil {
			return "err"
		}
		return fmt.Sprintf("ok %d", len(ps))
	}
	panic("unknown op " + op[0])
}

// field renders a byte string: hex, or `#len:hash` when long (same in Engine/FuzzMisc.lean).
func field(s string) string {
	if len(s) <= 64 {
		return common.Hex([]byte(s))
	}
	return fmt.Sprintf("#%d:%d", len(s), common.HashBytes([]byte(s)))
}

func optField(s *string) string {
	if s == nil {
		return "~"
	}
	return field(*s)
}

func candTok(c webrtc.ICECandidateInit) string {
	idx := "~"
	if c.SDPMLineIndex != nil {
		idx = fmt.Sprint(*c.SDPMLineIndex)
	}
	return field(c.Candidate) + "," + optField(c.UsernameFragment) + "," + idx + "," + optField(c.SDPMid)
}

// sdpParse runs the real Unmarshal on a zero SDPFrag and renders everything it produced.
func sdpParse(data []byte) string {
	var f sdpfrag.SDPFrag
	if err := f.Unmarshal(data); err != nil {
		return "err"
	}
	out := []string{"ok", "u=" + field(f.UsernameFragment), "p=" + field(f.Password), fmt.Sprintf("nc=%d", len(f.Candidates))}
	for _, c := range f.Candidates {
		out = append(out, candTok(c))
	}
	out = append(out, fmt.Sprintf("nm=%d", len(f.MediaDescriptions)))
	for _, m := range f.MediaDescriptions {
		out = append(out, "M", field(m.MLine), field(m.Mid), field(m.UsernameFragment), field(m.Password), fmt.Sprint(len(m.Candidates)))
		for _, c := range m.Candidates {
			out = append(out, candTok(c))
		}
	}
	u, p := f.UFragPwd()
	ms, err := f.Marshal()
	if err != nil {
		return "marshal-err"
	}
	out = append(out, "up="+field(u)+","+field(p), fmt.Sprintf("all=%d", len(f.AllCandidates())), "ms="+field(string(ms)))
	return strings.Join(out, " ")
}

var fragLines = []string{
	"a=ice-ufrag:abcd", "a=ice-ufrag:zz", "a=ice-pwd:0123456789abcdef012345", "a=ice-pwd:x", "a=ice-options:trickle",
	"m=audio 9 UDP/TLS/RTP/SAVPF 0", "m=video 9 UDP/TLS/RTP/SAVPF 96", "m=audio", "m=", "a=mid:0", "a=mid:1", "a=mid:", "a=mid:99999999999999999999",
	"a=candidate:1 1 UDP 2130706431 192.0.2.1 3478 typ host", "a=candidate:2 1 TCP 1 [::1] 9 typ host tcptype active",
	"a=candidate:", "a=candidate", "a=end-of-candidates", "a=", "a", "=", "", "v=0", "x=y", "a=ice-ufrag", "a=ice-pwd",
	"a=candidate:1 1 UDP 99999999999999999999 192.0.2.1 70000 typ host",
}

func gen(t *common.Trace, e common.Engine, r *common.Rng, thorough bool) {
	n := 4000
	if thorough {
		n = 200000
	}
	t.Case("sdpfrag")
	for i := 0; i < n; i++ {
		var sb strings.Builder
		k := r.Intn(9)
		for j := 0; j < k; j++ {
			l := common.Pick(r, fragLines...)
			if r.Intn(6) == 0 && len(l) > 0 {
				b := []byte(l)
				b[r.Intn(len(b))] = byte(r.Intn(256))
				l = string(b)
			}
			if r.Intn(10) == 0 && len(l) > 0 {
				l = l[:r.Intn(len(l))]
			}
			sb.WriteString(l)
			sb.WriteString(common.Pick(r, "\r\n", "\r\n", "\n", "\r", ""))
		}
		s := sb.String()
		if r.Intn(15) == 0 {
			s = string(common.RandBytes(r, r.Intn(60)))
		}
		res := common.Do(t, e, "sdpfrag "+common.Hex([]byte(s)))
		t.Count("sdpfrag:" + strings.Fields(res)[0])
		res = common.Do(t, e, "sdpparse "+common.Hex([]byte(s)))
		t.Count("sdpparse:" + strings.Fields(res)[0])
	}
	// lines around bufio.Scanner's 64 KiB token limit (Unmarshal ignores scanner.Err())
	t.Case("sdplong")
	nl := 40
	if thorough {
		nl = 400
	}
	for i := 0; i < nl; i++ {
		pre := ""
		for j := r.Intn(3); j > 0; j-- {
			pre += common.Pick(r, fragLines...) + common.Pick(r, "\r\n", "\n")
		}
		head := common.Pick(r, "a=candidate:", "a=ice-ufrag:", "a=ice-pwd:", "m=", "a=mid:", "x", "")
		pre += head
		count := 65536 - len(head) + common.Pick(r, -3, -2, -1, 0, 1, 2, r.Range(-70000, 70000))
		if count < 0 {
			count = 0
		}
		suf := common.Pick(r, "", "\n", "\r\n", "\r", "\r\r\n") + common.Pick(r, "", "a=candidate:z\n", "m=audio\r\na=mid:7", "a=mid:1\n")
		fill := common.Pick(r, 'x', 'x', '\r', ' ', 0)
		res := common.Do(t, e, fmt.Sprintf("sdplong %s %d %d %s", common.Hex([]byte(pre)), fill, count, common.Hex([]byte(suf))))
		t.Count("sdplong:" + strings.Fields(res)[0])
	}
	t.Case("rtcp")
	for i := 0; i < n; i++ {
		// RTCP compound packets with valid headers and random bodies/lengths
		var b []byte
		for k := r.Range(1, 3); k > 0; k-- {
			pt := common.Pick(r, 200, 201, 202, 203, 205, 205, 206, 206, 207, 192, r.Intn(256))
			words := r.Intn(12)
			hdr := []byte{byte(0x80 | r.Intn(32)), byte(pt), byte(words >> 8), byte(words)}
			body := common.RandBytes(r, words*4)
			if r.Intn(8) == 0 && len(body) > 0 {
				body = body[:r.Intn(len(body))]
			}
			b = append(b, hdr...)
			b = append(b, body...)
		}
		res := common.Do(t, e, "rtcp "+common.Hex(b))
		t.Count("rtcp:" + strings.Fields(res)[0])
	}
}

func main() { common.Main(&eng{}, gen) }
