// `loopstress nclients nprod nper`: the REAL client loop (rtpconn.StartClient -> clientLoop over a real
// websocket) against many concurrent producers of actions, then a liveness check (C13, "every action queued
// for a client is eventually seen by that client's loop").
//
// nclients web clients join a group through an httptest websocket server.  For each client, nprod goroutines
// call RequestConns nper times each (a cheap action: the client has no streams), the first of them also queues
// a permission change every 2048 iterations (handling it makes the loop Put a follow-up action on its OWN
// queue).  When the producers are done the client is kicked: the kick is the last action of the queue, so the
// client's websocket must receive the "kicked" message.  While waiting, the queue is observed through a shim:
//
//	ok                               every client saw its kick
//	stuck:q=<n>:s=0[:...]            the loop has taken nothing from a queue of n > 0 actions for stallTimeout, the
//	                                 trigger channel is empty and no kick was delivered: it sleeps on a non-empty queue
//	stuck:q=<n>:s=1[:...]            same with a full trigger channel: the loop is blocked somewhere else
//	   ...:producers-running         (observed before the producers had returned; they are then told to stop)
//	   ...:joining                   (observed before the join was answered: the join goes through the queue too)
//	env:<what>                       the environment failed (no loopback network, join refused): not a verdict
//
// A live loop takes the WHOLE queue each time it wakes up, so "the length has not gone down for seconds while
// non-zero" is not observed on it unless its goroutine is not scheduled for that long; the verdict does not
// depend on an absolute deadline for the kick.
// Runs in a child process (`group child-loopstress ...`): a stuck loop must not poison the harness.
package main

import (
	"fmt"
	"net/http"
	"net/http/httptest"
	"os"
	"path/filepath"
	"strings"
	"sync"
	"sync/atomic"
	"time"

	"github.com/gorilla/websocket"

	"github.com/jech/galene/group"
	"github.com/jech/galene/rtpconn"
)

const (
	stallTimeout    = 5 * time.Second  // nothing taken from a non-empty queue for this long = stuck
	producersBudget = 90 * time.Second // only reached if the loop keeps taking actions but the producers never return
	joinBudget      = 20 * time.Second // the join is not answered although nothing is stuck in the queue: environment
	kickBudget      = 30 * time.Second // ... or the kick is never delivered although the queue is emptied (a lost ACTION)
)

type wsMsg struct {
	Type     string   `json:"type"`
	Kind     string   `json:"kind,omitempty"`
	Id       string   `json:"id,omitempty"`
	Version  []string `json:"version,omitempty"`
	Group    string   `json:"group,omitempty"`
	Username *string  `json:"username,omitempty"`
	Password string   `json:"password,omitempty"`
}

func childLoopStress(args []string) {
	n := func(i, def int) int {
		if i < len(args) {
			var v int
			if _, err := fmt.Sscan(args[i], &v); err == nil && v > 0 {
				return v
			}
		}
		return def
	}
	fmt.Println(loopStress(n(0, 4), n(1, 4), n(2, 50000)))
}

func loopStress(nclients, nprod, nper int) string {
	dir, err := os.MkdirTemp("", "verifloop")
	if err != nil {
		return "env:tempdir"
	}
	defer os.RemoveAll(dir)
	group.Directory = filepath.Join(dir, "groups")
	group.DataDirectory = filepath.Join(dir, "data")
	os.MkdirAll(group.Directory, 0700)
	os.MkdirAll(group.DataDirectory, 0700)
	if err := os.WriteFile(filepath.Join(group.Directory, "loop.json"),
		[]byte(`{"wildcard-user": {"password": "pw", "permissions": "present"}}`), 0600); err != nil {
		return "env:write"
	}
	g, err := group.Add("loop", nil)
	if err != nil {
		return "env:add"
	}
	upgrader := websocket.Upgrader{}
	server := httptest.NewServer(http.HandlerFunc(func(w http.ResponseWriter, r *http.Request) {
		conn, err := upgrader.Upgrade(w, r, nil)
		if err != nil {
			return
		}
		rtpconn.StartClient(conn, nil)
	}))
	defer server.Close()
	url := "ws" + strings.TrimPrefix(server.URL, "http")

	var stop atomic.Bool
	results := make([]string, nclients)
	var wg sync.WaitGroup
	for k := 0; k < nclients; k++ {
		wg.Add(1)
		go func(k int) {
			defer wg.Done()
			results[k] = loopClient(g, url, k, nprod, nper, &stop)
			if strings.HasPrefix(results[k], "stuck") {
				stop.Store(true)
			}
		}(k)
	}
	wg.Wait()
	// worst verdict first: stuck, then env, then ok
	for _, pfx := range []string{"stuck", "env"} {
		for _, r := range results {
			if strings.HasPrefix(r, pfx) {
				return r
			}
		}
	}
	return "ok"
}

func loopClient(g *group.Group, url string, k, nprod, nper int, stop *atomic.Bool) string {
	id := fmt.Sprintf("loop-client-%d", k)
	username := fmt.Sprintf("user-%d", k)
	ws, _, err := websocket.DefaultDialer.Dial(url, nil)
	if err != nil {
		return "env:dial"
	}
	defer ws.Close()
	if ws.WriteJSON(wsMsg{Type: "handshake", Version: []string{"2"}, Id: id}) != nil ||
		ws.WriteJSON(wsMsg{Type: "join", Kind: "join", Group: "loop", Username: &username, Password: "pw"}) != nil {
		return "env:write"
	}
	joined, kicked := make(chan struct{}), make(chan struct{})
	go func() {
		var jonce, konce sync.Once
		for {
			var m wsMsg
			if err := ws.ReadJSON(&m); err != nil {
				return
			}
			if m.Type == "joined" && m.Kind == "join" {
				jonce.Do(func() { close(joined) })
			}
			if m.Type == "usermessage" && m.Kind == "kicked" {
				konce.Do(func() { close(kicked) })
			}
		}
	}()
	// phase 0: the join completes (it goes through the action queue too: joinedAction, pushClientAction)
	var c group.Client
	member := func() group.Client {
		if c == nil {
			c = g.GetClient(id)
		}
		return c
	}
	if r := watch(member, joined, joinBudget); r != "" {
		if strings.HasSuffix(r, ":slow") {
			return "env:join"
		}
		stop.Store(true)
		return r + ":joining"
	}
	if member() == nil {
		return "env:notmember"
	}
	if _, _, ok := rtpconn.VerifActionQueue(c); !ok {
		return "env:notwebclient"
	}
	self := func() group.Client { return c }

	pdone := make(chan struct{})
	go func() {
		var pwg sync.WaitGroup
		for i := 0; i < nprod; i++ {
			pwg.Add(1)
			go func(i int) {
				defer pwg.Done()
				for j := 0; j < nper && !stop.Load(); j++ {
					c.RequestConns(c, g, "")
					if i == 0 && j%2048 == 1024 {
						kind := "shutup"
						if (j/2048)%2 == 1 {
							kind = "unshutup"
						}
						rtpconn.VerifChangePermissions(c, kind)
					}
				}
			}(i)
		}
		pwg.Wait()
		close(pdone)
	}()
	// phase 1: the producers return (Put never blocks), and meanwhile the loop keeps taking what they put
	if r := watch(self, pdone, producersBudget); r != "" {
		stop.Store(true)
		return r + ":producers-running"
	}
	// phase 2: the marker action
	if err := c.Kick("", nil, "bye"); err != nil {
		return "env:kick"
	}
	return watch(self, kicked, kickBudget)
}

// watch waits for `done`, observing the queue: "" when done fired; "stuck:q=N:s=S" when the loop has taken
// nothing from a non-empty queue for stallTimeout (the length has not decreased: a live loop takes everything,
// down to 0, each time it wakes up); "stuck:q=N:s=S:slow" when the budget is exhausted.
func watch(client func() group.Client, done <-chan struct{}, budget time.Duration) string {
	start := time.Now()
	lastQ, lastProgress := 0, time.Now()
	tick := time.NewTicker(2 * time.Millisecond)
	defer tick.Stop()
	for {
		select {
		case <-done:
			return ""
		case <-tick.C:
		}
		q, s := 0, 0
		if c := client(); c != nil {
			q, s, _ = rtpconn.VerifActionQueue(c)
		}
		now := time.Now()
		if q == 0 || q < lastQ {
			lastProgress = now
		}
		lastQ = q
		stalled, slow := now.Sub(lastProgress) > stallTimeout, now.Sub(start) > budget
		if stalled || slow {
			select {
			case <-done:
				return ""
			default:
			}
			r := fmt.Sprintf("stuck:q=%d:s=%d", q, s)
			if !stalled {
				r += ":slow"
			}
			return r
		}
	}
}
