package main

// racejoin: n non-operators join a group with max-clients = max at the same time, with a
// password whose verification is slow (PBKDF2 with many iterations), so that their admission
// sections overlap in time if anything lets them.  C10: however joins interleave, a
// non-operator is never admitted to a group that already holds max-clients members.

import (
	"crypto/sha256"
	"encoding/hex"
	"encoding/json"
	"fmt"
	"net"
	"os"
	"path/filepath"
	"sync"
	"sync/atomic"
	"time"

	"golang.org/x/crypto/pbkdf2"

	"github.com/jech/galene/conn"
	"github.com/jech/galene/group"
)

type rmock struct {
	mu       sync.Mutex
	id       string
	username string
	perms    []string
	g        *group.Group
}

func (m *rmock) Group() *group.Group { m.mu.Lock(); defer m.mu.Unlock(); return m.g }
func (m *rmock) Addr() net.Addr      { return nil }
func (m *rmock) Id() string          { return m.id }
func (m *rmock) Username() string    { m.mu.Lock(); defer m.mu.Unlock(); return m.username }
func (m *rmock) Init(u string, p []string) {
	m.mu.Lock()
	m.username, m.perms = u, p
	m.mu.Unlock()
}
func (m *rmock) Permissions() []string          { m.mu.Lock(); defer m.mu.Unlock(); return m.perms }
func (m *rmock) Data() map[string]interface{}   { return nil }
func (m *rmock) PushConn(g *group.Group, id string, c conn.Up, tracks []conn.UpTrack, replace string) error {
	return nil
}
func (m *rmock) RequestConns(target group.Client, g *group.Group, id string) error { return nil }
func (m *rmock) Joined(group, kind string) error                                     { return nil }
func (m *rmock) PushClient(group, kind, id, username string, perms []string, data map[string]interface{}) error {
	return nil
}
func (m *rmock) Kick(id string, user *string, message string) error { return nil }

var raceSeq int

func (e *eng) racejoin(n, max, iterations int) string {
	raceSeq++
	name := fmt.Sprintf("race%d", raceSeq)
	salt := []byte{1, 2, 3, 4, 5, 6, 7, 8}
	key := pbkdf2.Key([]byte("slow"), salt, iterations, 32, sha256.New)
	desc := map[string]interface{}{
		"max-clients": max,
		"users": map[string]interface{}{
			"u": map[string]interface{}{
				"password": map[string]interface{}{"type": "pbkdf2", "hash": "sha-256",
					"key": hex.EncodeToString(key), "salt": hex.EncodeToString(salt), "iterations": iterations},
				"permissions": "present",
			},
		},
	}
	b, _ := json.Marshal(desc)
	file := filepath.Join(e.dir, name+".json")
	if err := os.WriteFile(file, b, 0600); err != nil {
		return "env:" + err.Error()
	}
	defer os.Remove(file)
	var wg sync.WaitGroup
	mocks := make([]*rmock, n)
	admitted := make([]bool, n)
	start := make(chan struct{})
	for i := 0; i < n; i++ {
		mocks[i] = &rmock{id: fmt.Sprintf("r%d", i)}
		wg.Add(1)
		go func(i int) {
			defer wg.Done()
			<-start
			u := "u"
			g, err := group.AddClient(name, mocks[i], group.ClientCredentials{Username: &u, Password: "slow"})
			if err == nil {
				mocks[i].mu.Lock()
				mocks[i].g = g
				mocks[i].mu.Unlock()
				admitted[i] = true
			}
		}(i)
	}
	close(start)
	wg.Wait()
	count := 0
	for _, a := range admitted {
		if a {
			count++
		}
	}
	g := group.Get(name)
	members := 0
	if g != nil {
		members = g.ClientCount()
		for _, m := range mocks {
			if m.Group() != nil {
				group.DelClient(m)
			}
		}
		group.Delete(name)
	}
	if count > max || members > max {
		return fmt.Sprintf("bad:admitted=%d,members=%d,max=%d", count, members, max)
	}
	if count != max && n >= max {
		return fmt.Sprintf("odd:admitted=%d,max=%d", count, max)
	}
	return "ok"
}

// histsnap: a chat-history snapshot handed to a caller (the join replay reads it without the group
// lock) must not change when the history is modified afterwards (C13: no unsynchronised access to
// the group's chat-history state; C15: replayed history is what was stored).
func (e *eng) histsnap(n, more int) string {
	raceSeq++
	name := fmt.Sprintf("hist%d", raceSeq)
	file := filepath.Join(e.dir, name+".json")
	if err := os.WriteFile(file, []byte(`{"users":{"u":{"password":"p","permissions":"op"}}}`), 0600); err != nil {
		return "env:" + err.Error()
	}
	defer os.Remove(file)
	g, err := group.Add(name, nil)
	if err != nil {
		return "env:" + err.Error()
	}
	defer group.Delete(name)
	u := "u"
	for i := 0; i < n; i++ {
		g.AddToChatHistory(fmt.Sprintf("m%d", i), "src", &u, time.Now(), "", fmt.Sprintf("v%d", i))
	}
	snap := g.GetChatHistory()
	ids := make([]string, len(snap))
	for i, h := range snap {
		ids[i] = h.Id
	}
	for i := 0; i < more; i++ {
		g.AddToChatHistory(fmt.Sprintf("x%d", i), "src", &u, time.Now(), "", "later")
	}
	g.ClearChatHistory("", "")
	for i, h := range snap {
		if h.Id != ids[i] {
			return fmt.Sprintf("bad:snapshot-entry-%d-changed-from-%s-to-%s", i, ids[i], h.Id)
		}
	}
	return "ok"
}

// lmock is an rmock that notes, on a shared event counter, when it was admitted and when it was kicked.
type lmock struct {
	rmock
	seq                *int64
	joinedAt, kickedAt int64
}

func (m *lmock) Joined(group, kind string) error {
	if kind == "join" {
		m.mu.Lock()
		m.joinedAt = atomic.AddInt64(m.seq, 1)
		m.mu.Unlock()
	}
	return nil
}
func (m *lmock) Kick(id string, user *string, message string) error {
	m.mu.Lock()
	m.kickedAt = atomic.AddInt64(m.seq, 1)
	m.mu.Unlock()
	return nil
}

// leavejoin: the last operator of an autokick/autolock group leaves while a non-operator's slow
// password check (PBKDF2 with many iterations) is in progress.  C10: whatever the interleaving,
// a non-operator is admitted only while an operator is present (autokick), and once the operator
// has left, every non-operator still in an autokick group has been kicked and an autolock group is
// locked.  The verdict needs no model: if DelClient(operator) has returned before the joiner's
// admission, no operator was present when it was admitted.
func (e *eng) leavejoin(kind string, iterations int) string {
	raceSeq++
	name := fmt.Sprintf("lj%d", raceSeq)
	salt := []byte{8, 7, 6, 5, 4, 3, 2, 1}
	key := pbkdf2.Key([]byte("slow"), salt, iterations, 32, sha256.New)
	desc := map[string]interface{}{
		kind: true,
		"users": map[string]interface{}{
			"o": map[string]interface{}{"password": "po", "permissions": "op"},
			"u": map[string]interface{}{
				"password": map[string]interface{}{"type": "pbkdf2", "hash": "sha-256",
					"key": hex.EncodeToString(key), "salt": hex.EncodeToString(salt), "iterations": iterations},
				"permissions": "present",
			},
		},
	}
	b, _ := json.Marshal(desc)
	file := filepath.Join(e.dir, name+".json")
	if err := os.WriteFile(file, b, 0600); err != nil {
		return "env:" + err.Error()
	}
	defer os.Remove(file)
	var seq int64
	o := &lmock{rmock: rmock{id: "op"}, seq: &seq}
	j := &lmock{rmock: rmock{id: "joiner"}, seq: &seq}
	uo, uj := "o", "u"
	g, err := group.AddClient(name, o, group.ClientCredentials{Username: &uo, Password: "po"})
	if err != nil {
		return "env:opjoin:" + err.Error()
	}
	o.mu.Lock()
	o.g = g
	o.mu.Unlock()
	jdone := make(chan error, 1)
	go func() {
		gg, err := group.AddClient(name, j, group.ClientCredentials{Username: &uj, Password: "slow"})
		if err == nil {
			j.mu.Lock()
			j.g = gg
			j.mu.Unlock()
		}
		jdone <- err
	}()
	time.Sleep(5 * time.Millisecond) // the joiner is now (most likely) hashing
	group.DelClient(o)
	delAt := atomic.AddInt64(&seq, 1)
	jerr := <-jdone
	locked, _ := g.Locked()
	member := false
	for _, c := range g.GetClients(nil) {
		if c == group.Client(j) {
			member = true
		}
	}
	// autoLockKick kicks from a goroutine of its own: give it time before concluding that nobody was kicked
	var joinedAt, kickedAt int64
	for deadline := time.Now().Add(2 * time.Second); ; {
		j.mu.Lock()
		joinedAt, kickedAt = j.joinedAt, j.kickedAt
		j.mu.Unlock()
		if !(member && kind == "autokick" && kickedAt == 0) || time.Now().After(deadline) {
			break
		}
		time.Sleep(time.Millisecond)
	}
	if member {
		group.DelClient(j)
	}
	group.Delete(name)
	if jerr == nil && joinedAt > delAt {
		return fmt.Sprintf("bad:%s:non-operator-admitted-after-the-last-operator's-DelClient-had-returned", kind)
	}
	if member && kind == "autokick" && kickedAt == 0 {
		return "bad:autokick:operator-gone,non-operator-still-a-member-and-never-kicked"
	}
	if member && kind == "autolock" && !locked {
		return "bad:autolock:operator-gone,non-operator-present,group-not-locked"
	}
	return "ok"
}

// cmock counts the departures it is told about.
type cmock struct {
	rmock
	cmu     sync.Mutex
	deletes map[string]int
}

func (m *cmock) PushClient(group, kind, id, username string, perms []string, data map[string]interface{}) error {
	if kind == "delete" {
		m.cmu.Lock()
		if m.deletes == nil {
			m.deletes = map[string]int{}
		}
		m.deletes[id]++
		m.cmu.Unlock()
	}
	return nil
}

// dupleave: one member's departure is reported by several goroutines at the same instant (as happens
// when a connection is closed by its handler, by an ICE callback and by a kick).  C14: every remaining
// member is told exactly once.
func (e *eng) dupleave(rounds int) string {
	raceSeq++
	name := fmt.Sprintf("dl%d", raceSeq)
	file := filepath.Join(e.dir, name+".json")
	if err := os.WriteFile(file, []byte(`{"users":{"u":{"password":"p","permissions":"present"}}}`), 0600); err != nil {
		return "env:" + err.Error()
	}
	defer os.Remove(file)
	u := "u"
	creds := group.ClientCredentials{Username: &u, Password: "p"}
	a := &cmock{rmock: rmock{id: "watcher"}}
	g, err := group.AddClient(name, a, creds)
	if err != nil {
		return "env:" + err.Error()
	}
	a.mu.Lock()
	a.g = g
	a.mu.Unlock()
	defer func() {
		group.DelClient(a)
		group.Delete(name)
	}()
	const callers = 3
	for r := 0; r < rounds; r++ {
		d := &cmock{rmock: rmock{id: fmt.Sprintf("d%d", r)}}
		if _, err := group.AddClient(name, d, creds); err != nil {
			return "env:" + err.Error()
		}
		d.mu.Lock()
		d.g = g
		d.mu.Unlock()
		var ready int32
		var wg sync.WaitGroup
		for i := 0; i < callers; i++ {
			wg.Add(1)
			go func() {
				defer wg.Done()
				atomic.AddInt32(&ready, 1)
				for atomic.LoadInt32(&ready) < callers {
				}
				group.DelClient(d)
			}()
		}
		wg.Wait()
		a.cmu.Lock()
		n := a.deletes[d.id]
		a.cmu.Unlock()
		if n != 1 {
			return fmt.Sprintf("bad:round-%d:the-remaining-member-was-told-%d-times-that-%s-left", r, n, d.id)
		}
	}
	return "ok"
}
