// Engine `group`: drives the real group.Add/AddClient/DelClient/SetLocked with
// mock group.Client implementations on a temporary groups directory (C10), and
// forces the two schedules the design names: P9 (admission window after the
// last operator left, op `p9`) and P14 (Group.mu <-> WhipClient.mu, op `whipdl`).
//
// Ops (impl result after `=>`); `-` stands for the empty string / absent value:
//
//	mkgroup max nb exp autolock autokick user:role:pw ...   =>            (writes <dir>/<group>.json, version 1)
//	setdesc max nb exp autolock autokick user:role:pw ...   =>            (rewrites the file, new version)
//	rmdesc                                                  =>            (removes the file)
//	variant delAtomic initLate                              =>            (first op of a case: the code variant probed
//	                                                                       on the real code, a parameter of the model)
//	reload                  => ok|fail:<kind> e=<events> k=<kicked> m=<members> l=<locked>
//	join h id user pw       => ok|fail:<kind> p=<perms> u=<username> e=.. k=.. m=.. l=..
//	joinsys h id            => (same; the client's Permissions() is ["system"], creds.System)
//	leave h                 => ok e=.. k=.. m=.. l=..     (group.DelClient(mock); mock.Group() is what a web client's would be)
//	leaveforce h            => (same, but mock.Group() returns the group even if the mock is not a member)
//	lock msg | unlock       => ok|nogroup e=.. k=.. m=.. l=..
//	members                 => sorted ids      locked => 0|1
//	permsof h               => member=0|1 p=<perms> u=<username>
//	p9 jh jid user pw oph   => sched=0|1 <join result...>   forced schedule of DESIGN C10 / finding P9
//	whipdl                  => done|deadlock                 forced schedule of finding P14 (C13)
//	shutdowndl              => done|deadlock                 group.Shutdown with a WHIP member, in a child process (C13)
//	loopstress nc np n      => ok|stuck:...|env:...          the real clientLoop against nc x np producers x n actions, then a
//	                                                          kick that must be seen (C13 lost wakeup; loopstress.go, child process)
//
// nb/exp are offsets in seconds from now (never near 0).  user `*` is the
// wildcard user; pw `*` in a user entry is a password of type "wildcard"; pw `-`
// is no password.  Events per receiving mock, in the order received:
// Jkind (Joined), Aid/user/perms (PushClient add), Did/user (PushClient delete).
// A Go map decides the order in which galene walks its members, so runs of
// consecutive A events about *other* clients are sorted by id.
package main

import (
	"encoding/json"
	"errors"
	"fmt"
	"io"
	"log"
	"net"
	"os"
	"os/exec"
	"path/filepath"
	"runtime"
	"sort"
	"strings"
	"sync"
	"time"

	"github.com/jech/galene/conn"
	"github.com/jech/galene/group"
	"github.com/jech/galene/rtpconn"
	"github.com/jech/galene/zzverif/common"
)

type event struct {
	kind string // J, A, D
	id   string
	s    string
}

type mock struct {
	e        *eng
	h        int
	mu       sync.Mutex // protects the mock's own fields (so that -race only reports galene's races)
	id       string
	username string
	perms    []string
	g        *group.Group
	onJoined func(kind string)
	onPerms  func()
}

func (m *mock) Group() *group.Group {
	m.mu.Lock()
	defer m.mu.Unlock()
	return m.g
}
func (m *mock) setGroup(g *group.Group) {
	m.mu.Lock()
	m.g = g
	m.mu.Unlock()
}
func (m *mock) Addr() net.Addr { return nil }
func (m *mock) Id() string {
	m.mu.Lock()
	defer m.mu.Unlock()
	return m.id
}
func (m *mock) Username() string {
	m.mu.Lock()
	defer m.mu.Unlock()
	return m.username
}
func (m *mock) Init(u string, p []string) {
	m.mu.Lock()
	m.username = u
	m.perms = append([]string(nil), p...)
	m.mu.Unlock()
}
func (m *mock) Permissions() []string {
	m.mu.Lock()
	f := m.onPerms
	p := m.perms
	m.mu.Unlock()
	if f != nil {
		f()
	}
	return p
}
func (m *mock) Data() map[string]interface{} { return nil }
func (m *mock) PushConn(g *group.Group, id string, c conn.Up, tracks []conn.UpTrack, replace string) error {
	return nil
}
func (m *mock) RequestConns(target group.Client, g *group.Group, id string) error { return nil }
func (m *mock) Joined(g, kind string) error {
	m.e.record(m.h, event{kind: "J", s: "J" + kind})
	m.mu.Lock()
	f := m.onJoined
	m.mu.Unlock()
	if f != nil {
		f(kind)
	}
	return nil
}
func (m *mock) PushClient(g, kind, id, username string, perms []string, data map[string]interface{}) error {
	switch kind {
	case "add":
		m.e.record(m.h, event{kind: "A", id: id, s: "A" + tok(id) + "/" + tok(username) + "/" + plus(perms)})
	case "delete":
		m.e.record(m.h, event{kind: "D", id: id, s: "D" + tok(id) + "/" + tok(username)})
	default:
		m.e.record(m.h, event{kind: "P", id: id, s: "P" + kind + "/" + tok(id)})
	}
	return nil
}
func (m *mock) Kick(id string, user *string, message string) error {
	m.e.emu.Lock()
	m.e.kicks = append(m.e.kicks, m.h)
	m.e.emu.Unlock()
	return nil
}

func tok(s string) string {
	if s == "" {
		return "-"
	}
	return strings.ReplaceAll(s, " ", "_")
}
func untok(s string) string {
	if s == "-" {
		return ""
	}
	return s
}
func plus(p []string) string {
	if len(p) == 0 {
		return "-"
	}
	return strings.Join(p, "+")
}

type udesc struct{ name, role, pw string }
type desc struct {
	max                int
	nb, exp            string
	autolock, autokick bool
	users              []udesc
}

type eng struct {
	dir     string
	ncase   int
	name    string
	d       *desc
	version int
	mocks   map[int]*mock
	emu     sync.Mutex
	events  map[int][]event
	kicks   []int
	base    int // number of goroutines when nothing is going on
	// code variant, probed on the real code once: does DelClient keep g.mu across autoLockKick (repair of
	// finding P9), does AddClient call Init only after the checks (repair of P10).  The model takes them
	// as parameters; the oracle does not look at them.
	probed             bool
	delAtomic, initLate bool
}

func (e *eng) probe() {
	if e.probed {
		return
	}
	e.probed = true
	x := func(op string) string { return e.Exec(strings.Fields(op)) }
	e.Reset()
	x("mkgroup 0 - - 0 0 a:present:pa")
	x("reload")
	x("lock -")
	r := x("join 0 c0 a pa")
	e.initLate = strings.HasPrefix(r, "fail:locked") && strings.Contains(r, " p=- ")
	e.Reset()
	x("mkgroup 0 - - 1 0 o1:op:p1 a:present:pa")
	x("join 0 c0 o1 p1")
	x("unlock")
	r = x("p9 1 c1 a pa 0")
	e.delAtomic = strings.HasPrefix(r, "sched=1 fail:locked")
}

func (e *eng) record(h int, ev event) {
	e.emu.Lock()
	e.events[h] = append(e.events[h], ev)
	e.emu.Unlock()
}

func (e *eng) Reset() {
	if e.dir == "" {
		d, err := os.MkdirTemp("", "verifgroup")
		if err != nil {
			panic(err)
		}
		e.dir = d
		group.Directory = d
		group.DataDirectory = d
		e.base = runtime.NumGoroutine()
	}
	if e.name != "" {
		os.Remove(filepath.Join(e.dir, e.name+".json"))
		// empty the previous group so that the registry does not grow (best effort;
		// never touch a group poisoned by the deadlock replay)
		if g := group.Get(e.name); g != nil {
			for _, m := range e.mocks {
				if m.Group() == nil {
					m.setGroup(g)
				}
				group.DelClient(m)
			}
			group.Delete(e.name)
		}
		e.quiesce()
	}
	e.ncase++
	e.name = fmt.Sprintf("g%d", e.ncase)
	e.d = nil
	e.version = 0
	e.mocks = map[int]*mock{}
	e.events = map[int][]event{}
	e.kicks = nil
}

func (e *eng) mock(h int) *mock {
	m := e.mocks[h]
	if m == nil {
		m = &mock{e: e, h: h}
		e.mocks[h] = m
	}
	return m
}

func parseDesc(op []string) *desc {
	d := &desc{max: common.Atoi(op[0]), nb: op[1], exp: op[2], autolock: op[3] == "1", autokick: op[4] == "1"}
	for _, u := range op[5:] {
		f := strings.Split(u, ":")
		if len(f) != 3 {
			panic("bad user spec " + u)
		}
		d.users = append(d.users, udesc{f[0], f[1], f[2]})
	}
	return d
}

func pwJSON(pw string) (interface{}, bool) {
	switch pw {
	case "-":
		return nil, false
	case "*":
		return map[string]interface{}{"type": "wildcard"}, true
	}
	return pw, true
}

func (e *eng) writeDesc() {
	d := e.d
	e.version++
	m := map[string]interface{}{}
	if d.max != 0 {
		m["max-clients"] = d.max
	}
	now := time.Now()
	if d.nb != "-" {
		m["not-before"] = now.Add(time.Duration(common.Atoi(d.nb)) * time.Second).Format(time.RFC3339)
	}
	if d.exp != "-" {
		m["expires"] = now.Add(time.Duration(common.Atoi(d.exp)) * time.Second).Format(time.RFC3339)
	}
	if d.autolock {
		m["autolock"] = true
	}
	if d.autokick {
		m["autokick"] = true
	}
	users := map[string]interface{}{}
	for _, u := range d.users {
		ud := map[string]interface{}{"permissions": u.role}
		if pw, ok := pwJSON(u.pw); ok {
			ud["password"] = pw
		}
		if u.name == "*" {
			m["wildcard-user"] = ud
		} else {
			users[u.name] = ud
		}
	}
	if len(users) > 0 {
		m["users"] = users
	}
	m["comment"] = fmt.Sprintf("version %d", e.version)
	b, err := json.Marshal(m)
	if err != nil {
		panic(err)
	}
	fn := filepath.Join(e.dir, e.name+".json")
	if err := os.WriteFile(fn, b, 0600); err != nil {
		panic(err)
	}
	// galene recognises a new version by (size, mtime); make the mtime strictly
	// increasing whatever the clock granularity
	mt := time.Unix(1700000000+int64(e.ncase)*100000+int64(e.version), 0)
	if err := os.Chtimes(fn, mt, mt); err != nil {
		panic(err)
	}
}

func errKind(err error) string {
	var na *group.NotAuthorisedError
	var ue group.UserError
	var pe group.ProtocolError
	switch {
	case err == nil:
		return "ok"
	case errors.As(err, &na):
		return "fail:notauthorised"
	case errors.Is(err, os.ErrNotExist):
		return "fail:notfound"
	case errors.As(err, &ue):
		switch string(ue) {
		case "this group is not open yet":
			return "fail:notopen"
		case "this group is closed":
			return "fail:closed"
		case "there are no operators in this group":
			return "fail:noops"
		case "too many users":
			return "fail:full"
		}
		return "fail:locked:" + tok(string(ue))
	case errors.As(err, &pe):
		if string(pe) == "duplicate client id" {
			return "fail:dup"
		}
		return "fail:protocol"
	case err.Error() == "client has empty id":
		return "fail:emptyid"
	}
	return "fail:err"
}

// quiesce waits for the goroutines galene started during the op (autokick) to finish.
func (e *eng) quiesce() {
	deadline := time.Now().Add(2 * time.Second)
	for i := 0; runtime.NumGoroutine() > e.base; i++ {
		if i < 100 {
			runtime.Gosched()
		} else {
			time.Sleep(50 * time.Microsecond)
		}
		if time.Now().After(deadline) {
			break
		}
	}
}

// drain returns "e=<events> k=<kicks>" for everything recorded since the last call.
func (e *eng) drain() string {
	e.emu.Lock()
	defer e.emu.Unlock()
	var hs []int
	for h := range e.events {
		hs = append(hs, h)
	}
	sort.Ints(hs)
	var parts []string
	for _, h := range hs {
		evs := e.events[h]
		if len(evs) == 0 {
			continue
		}
		own := e.mocks[h].Id()
		// sort maximal runs of A events about other clients by id
		for i := 0; i < len(evs); {
			j := i
			for j < len(evs) && evs[j].kind == "A" && evs[j].id != own {
				j++
			}
			if j > i {
				run := evs[i:j]
				sort.SliceStable(run, func(a, b int) bool { return run[a].id < run[b].id })
				i = j
			} else {
				i++
			}
		}
		ss := make([]string, len(evs))
		for i, ev := range evs {
			ss[i] = ev.s
		}
		parts = append(parts, fmt.Sprintf("%d:%s", h, strings.Join(ss, ",")))
	}
	e.events = map[int][]event{}
	ev := "-"
	if len(parts) > 0 {
		ev = strings.Join(parts, ";")
	}
	k := "-"
	if len(e.kicks) > 0 {
		sort.Ints(e.kicks)
		ks := make([]string, len(e.kicks))
		for i, h := range e.kicks {
			ks[i] = fmt.Sprint(h)
		}
		k = strings.Join(ks, ",")
	}
	e.kicks = nil
	return "e=" + ev + " k=" + k
}

func (e *eng) members() string {
	g := group.Get(e.name)
	if g == nil {
		return "-"
	}
	var ids []string
	for _, c := range g.GetClients(nil) {
		ids = append(ids, tok(c.Id()))
	}
	if len(ids) == 0 {
		return "-"
	}
	sort.Strings(ids)
	return strings.Join(ids, ",")
}

func (e *eng) lockedS() string {
	g := group.Get(e.name)
	if g == nil {
		return "-"
	}
	l, _ := g.Locked()
	return common.B2s(l)
}

func (e *eng) state() string { return "m=" + e.members() + " l=" + e.lockedS() }

func (e *eng) creds(user, pw string) group.ClientCredentials {
	c := group.ClientCredentials{Password: untok(pw)}
	if user != "-" {
		u := user
		c.Username = &u
	}
	return c
}

func (e *eng) join(m *mock, cr group.ClientCredentials) string {
	g, err := group.AddClient(e.name, m, cr)
	if err == nil {
		m.setGroup(g)
	}
	return errKind(err)
}

func (m *mock) pu() string {
	m.mu.Lock()
	defer m.mu.Unlock()
	return "p=" + plus(m.perms) + " u=" + tok(m.username)
}

func (e *eng) Exec(op []string) string {
	a := func(i int) int { return common.Atoi(op[i]) }
	fin := func(status string) string {
		e.quiesce()
		return status + " " + e.drain() + " " + e.state()
	}
	switch op[0] {
	case "variant":
		if !e.probed {
			e.probe()
			e.Reset() // the probes ran on scratch groups of their own
		}
		if cur := common.B2s(e.delAtomic) + " " + common.B2s(e.initLate); cur != op[1]+" "+op[2] {
			return "stale:" + strings.ReplaceAll(cur, " ", ",")
		}
		return ""
	case "mkgroup", "setdesc":
		e.d = parseDesc(op[1:])
		e.writeDesc()
		return ""
	case "rmdesc":
		os.Remove(filepath.Join(e.dir, e.name+".json"))
		return ""
	case "reload":
		_, err := group.Add(e.name, nil)
		return fin(errKind(err))
	case "join":
		m := e.mock(a(1))
		m.mu.Lock()
		m.id = untok(op[2])
		m.mu.Unlock()
		st := e.join(m, e.creds(op[3], op[4]))
		return fin(st + " " + m.pu())
	case "joinsys":
		m := e.mock(a(1))
		m.mu.Lock()
		m.id = untok(op[2])
		m.perms = []string{"system"}
		m.mu.Unlock()
		st := e.join(m, group.ClientCredentials{System: true})
		return fin(st + " " + m.pu())
	case "leave", "leaveforce":
		m := e.mock(a(1))
		if op[0] == "leaveforce" {
			if g := group.Get(e.name); g != nil {
				m.setGroup(g)
			}
		}
		group.DelClient(m)
		// as webClient.leaveGroup: forget the group and the permissions
		m.mu.Lock()
		m.g = nil
		m.perms = nil
		m.mu.Unlock()
		return fin("ok")
	case "lock", "unlock":
		g := group.Get(e.name)
		if g == nil {
			return fin("nogroup")
		}
		if op[0] == "lock" {
			g.SetLocked(true, untok(op[1]))
		} else {
			g.SetLocked(false, "")
		}
		return fin("ok")
	case "members":
		return e.members()
	case "locked":
		return e.lockedS()
	case "permsof":
		m := e.mock(a(1))
		member := false
		if g := group.Get(e.name); g != nil {
			for _, c := range g.GetClients(nil) {
				if c == group.Client(m) {
					member = true
				}
			}
		}
		return "member=" + common.B2s(member) + " " + m.pu()
	case "racejoin":
		return e.racejoin(a(1), a(2), a(3))
	case "leavejoin":
		return e.leavejoin(op[1], a(2))
	case "dupleave":
		return e.dupleave(a(1))
	case "histsnap":
		return e.histsnap(a(1), a(2))
	case "p9":
		return e.p9(op, fin)
	case "whipdl":
		return e.whipdl()
	case "shutdowndl":
		// group.Shutdown holds groups.mu for ever if it deadlocks: run it in a child process
		cmd := exec.Command(os.Args[0], "child-shutdown")
		out, err := cmd.Output()
		if err != nil {
			return "fail:child"
		}
		return strings.TrimSpace(string(out))
	case "convstress":
		return convStress(common.Atoi(op[1]), common.Atoi(op[2]))
	case "loopstress":
		// a stuck client loop (and the goroutines of an HTTP server) must not poison the harness: child process
		cmd := exec.Command(os.Args[0], append([]string{"child-loopstress"}, op[1:]...)...)
		var out []byte
		var err error
		fin := make(chan struct{})
		go func() { out, err = cmd.Output(); close(fin) }()
		select {
		case <-fin:
		case <-time.After(5 * time.Minute):
			cmd.Process.Kill()
			<-fin
			return "fail:child-timeout"
		}
		if err != nil {
			return "fail:child"
		}
		return strings.TrimSpace(string(out))
	}
	panic("unknown op " + op[0])
}

// p9 forces the schedule of DESIGN C10 / finding P9 on the real code.  The
// description file is touched so that the joiner's Add() notifies the members
// between its two critical sections; inside the operator's Joined("change")
// callback the operator's DelClient is started and parked in the operator's
// own Joined("leave") callback (after the removal, before autoLockKick); the
// joiner then runs its admission section; finally DelClient is released.
// Precondition (else `badsched`, nothing is done): the operator handle is a
// member holding "op" (so no callback is made under g.mu) and a description exists.
func (e *eng) p9(op []string, fin func(string) string) string {
	j := e.mock(common.Atoi(op[1]))
	o := e.mock(common.Atoi(op[5]))
	g := group.Get(e.name)
	isMember := false
	if g != nil {
		for _, c := range g.GetClients(nil) {
			if c == group.Client(o) {
				isMember = true
			}
		}
	}
	hasOp := false
	for _, p := range o.Permissions() {
		if p == "op" {
			hasOp = true
		}
	}
	if e.d == nil || !isMember || !hasOp || j == o {
		return "badsched"
	}
	if _, err := os.Stat(filepath.Join(e.dir, e.name+".json")); err != nil {
		return "badsched"
	}
	j.mu.Lock()
	j.id = untok(op[2])
	j.mu.Unlock()
	e.writeDesc() // same content, new version
	parked := make(chan struct{})
	release := make(chan struct{})
	done := make(chan struct{})
	fired := false
	o.mu.Lock()
	o.onJoined = func(kind string) {
		if kind == "change" && !fired {
			fired = true
			go func() {
				group.DelClient(o)
				o.setGroup(nil)
				close(done)
			}()
			select {
			case <-parked:
			case <-done:
			}
		} else if kind == "leave" && fired {
			close(parked)
			<-release
		}
	}
	o.mu.Unlock()
	st := e.join(j, e.creds(op[3], op[4]))
	o.mu.Lock()
	o.onJoined = nil
	o.mu.Unlock()
	sched := "sched=0"
	if fired {
		sched = "sched=1"
		close(release)
		<-done
	}
	return fin(sched + " " + st + " " + j.pu())
}

// whipdl forces the lock-order inversion of finding P14: a real
// rtpconn.WhipClient W is a member of a fresh group; a mock joiner J is parked
// inside its own Permissions() call at the top of AddClient's critical section
// (holding g.mu); W.Close() is started and takes W.mu, then blocks in DelClient
// on g.mu; J is released and walks the members, calling W.Permissions(), which
// needs W.mu.  Result `deadlock` if neither call has returned after 300 ms.
func (e *eng) whipdl() string {
	name := fmt.Sprintf("dl%d", e.ncase)
	fn := filepath.Join(e.dir, name+".json")
	os.WriteFile(fn, []byte(`{"users":{"w":{"password":"pw","permissions":"present"},"j":{"password":"pw","permissions":"present"}}}`), 0600)
	defer os.Remove(fn)
	g, err := group.Add(name, nil)
	if err != nil {
		return "fail:" + err.Error()
	}
	w := rtpconn.NewWhipClient(g, "whip", "", nil)
	uw, uj := "w", "j"
	if _, err := group.AddClient(name, w, group.ClientCredentials{Username: &uw, Password: "pw"}); err != nil {
		return "fail:whipjoin"
	}
	j := &mock{e: e, h: 99, id: "joiner"}
	e.mocks[99] = j
	inPerms := make(chan struct{})
	release := make(chan struct{})
	first := true
	j.onPerms = func() {
		if first {
			first = false
			close(inPerms)
			<-release
		}
	}
	jdone := make(chan struct{})
	wdone := make(chan struct{})
	go func() {
		group.AddClient(name, j, group.ClientCredentials{Username: &uj, Password: "pw"})
		close(jdone)
	}()
	<-inPerms // J holds g.mu
	go func() {
		w.Close()
		close(wdone)
	}()
	// wait until W.Close holds W.mu (it then blocks on g.mu, which J holds)
	deadline := time.Now().Add(2 * time.Second)
	for !rtpconn.VerifWhipLocked(w) && time.Now().Before(deadline) {
		runtime.Gosched()
	}
	close(release)
	timeout := time.After(300 * time.Millisecond)
	nd := 0
	for nd < 2 {
		select {
		case <-jdone:
			jdone = nil
			nd++
		case <-wdone:
			wdone = nil
			nd++
		case <-timeout:
			e.drain()
			// the two blocked goroutines stay for ever
			e.base = runtime.NumGoroutine()
			return "deadlock"
		}
	}
	e.drain()
	group.DelClient(j)
	group.Delete(name)
	e.drain()
	return "done"
}

// ---------------------------------------------------------------------------
// generator

var roles = []string{"op", "present", "message", "observe"}

type gdesc struct {
	max                int
	nb, exp            string
	autolock, autokick bool
	users              []udesc
}

func (d *gdesc) String() string {
	var sb strings.Builder
	fmt.Fprintf(&sb, "%d %s %s %s %s", d.max, d.nb, d.exp, common.B2s(d.autolock), common.B2s(d.autokick))
	for _, u := range d.users {
		fmt.Fprintf(&sb, " %s:%s:%s", u.name, u.role, u.pw)
	}
	return sb.String()
}

func genDesc(r *common.Rng) *gdesc {
	d := &gdesc{nb: "-", exp: "-"}
	d.max = common.Pick(r, 0, 0, 0, 1, 2, 2, 3, 4)
	if r.Intn(6) == 0 {
		d.nb = common.Pick(r, "-3600", "3600", "-60", "600")
	}
	if r.Intn(6) == 0 {
		d.exp = common.Pick(r, "3600", "-3600", "60", "-600")
	}
	d.autolock = r.Intn(3) == 0
	d.autokick = r.Intn(5) == 0
	d.users = []udesc{{"o1", "op", "p1"}, {"o2", "op", "p2"}, {"a", "present", "pa"}, {"b", "message", "pb"}, {"c", "observe", "pc"}}
	switch r.Intn(6) {
	case 0:
		d.users = append(d.users, udesc{"*", common.Pick(r, roles...), "pw"})
	case 1:
		d.users = append(d.users, udesc{"*", common.Pick(r, "present", "message", "observe"), "*"})
	case 2:
		d.users = append(d.users, udesc{"n", "present", "-"})
	case 3:
		d.users = d.users[1:]
	}
	return d
}

func gen(t *common.Trace, e common.Engine, r *common.Rng, thorough bool) {
	// common.NewRng(seed) streams for consecutive seeds are shifts of each other; re-key
	r = common.NewRng(r.U64())
	ncases := 4000
	if thorough {
		ncases = 25000
	}
	ids := []string{"c0", "c1", "c2", "c3", "c4", "c5"}
	// the Group.mu <-> WhipClient.mu schedule (C13, finding P14)
	t.Case("whipdl")
	e.Reset()
	common.Do(t, e, "whipdl")
	// Shutdown -> kickall -> Kick under g.mu -> DelClient (C13, the Group.mu self-edge)
	t.Case("shutdowndl")
	e.Reset()
	common.Do(t, e, "shutdowndl")
	// the real client loop against concurrent producers, then a kick that must be seen (C13: no lost wakeup)
	t.Case("loopstress")
	e.Reset()
	common.Do(t, e, "loopstress 8 4 200000")
	if thorough {
		for _, p := range []string{"16 2 200000", "4 8 200000", "2 16 400000", "8 4 200000", "8 4 200000"} {
			common.Do(t, e, "loopstress "+p)
		}
	}
	// concurrent joins against a leave: every member's folded list equals the membership when nothing is in flight (C14)
	t.Case("convstress")
	e.Reset()
	if thorough {
		common.Do(t, e, "convstress 60 20000")
		common.Do(t, e, "convstress 8 20000")
	} else {
		common.Do(t, e, "convstress 60 1500")
	}
	// overlapping joins with a slow password check against max-clients (C10: capacity under every interleaving)
	t.Case("racejoin")
	e.Reset()
	for _, mx := range []int{1, 2, 3} {
		common.Do(t, e, fmt.Sprintf("racejoin %d %d %d", 6, mx, 60000))
	}
	// the last operator leaves while a non-operator's slow password check is in progress (C10: autokick/autolock under every interleaving)
	for _, kind := range []string{"autokick", "autolock", "autokick"} {
		common.Do(t, e, fmt.Sprintf("leavejoin %s %d", kind, 150000))
	}
	// one departure reported by three goroutines at once (C14: told exactly once)
	if thorough {
		common.Do(t, e, "dupleave 20000")
	} else {
		common.Do(t, e, "dupleave 3000")
	}
	// a history snapshot handed out must be a copy (C13/C15)
	for _, hn := range [][2]int{{10, 5}, {49, 3}, {50, 1}, {50, 60}, {75, 10}} {
		common.Do(t, e, fmt.Sprintf("histsnap %d %d", hn[0], hn[1]))
	}
	ge := e.(*eng)
	ge.Reset()
	ge.probe()
	variant := fmt.Sprintf("variant %s %s", common.B2s(ge.delAtomic), common.B2s(ge.initLate))
	t.Count(strings.ReplaceAll(variant, " ", ":"))
	for ci := 0; ci < ncases; ci++ {
		t.Case(fmt.Sprint(ci))
		e.Reset()
		do := func(f string, args ...any) string { return common.Do(t, e, fmt.Sprintf(f, args...)) }
		do(variant)
		d := genDesc(r)
		if ci%12 == 5 {
			// directed: an autolock group that its only operator has unlocked; a newcomer joins while the operator leaves
			d.autolock, d.nb, d.exp, d.autokick = true, "-", "-", false
			d.users = []udesc{{"o1", "op", "p1"}, {"o2", "op", "p2"}, {"a", "present", "pa"}, {"b", "message", "pb"}, {"c", "observe", "pc"}}
			do("mkgroup %s", d)
			do("join 0 c0 o1 p1")
			if r.Intn(3) == 0 {
				do("join 1 c1 %s", common.Pick(r, "a pa", "b pb", "o2 p2"))
			}
			do("unlock")
			if r.Intn(2) == 0 {
				do("join 2 c2 %s", common.Pick(r, "a pa", "c pc"))
			}
			do("p9 3 c3 %s 0", common.Pick(r, "a pa", "b pb", "c pc", "o2 p2", "a wrong"))
			do("members")
			do("join 4 c4 a pa")
			do("locked")
			continue
		}
		do("mkgroup %s", d)
		member := map[int]string{} // handle -> id, as far as the generator knows
		isop := map[int]bool{}
		refused := map[int]bool{}
		nh := 8
		pickCreds := func() (string, string, bool) {
			k := r.Weighted(70, 8, 6, 3, 13)
			var u udesc
			named := d.users[:0:0]
			for _, x := range d.users {
				if x.name != "*" {
					named = append(named, x)
				}
			}
			u = named[r.Intn(len(named))]
			if k == 4 { // an operator
				for _, x := range named {
					if x.role == "op" && r.Intn(2) == 0 {
						u = x
					}
				}
			}
			switch k {
			case 1:
				return u.name, "wrong", false
			case 2:
				return common.Pick(r, "zed", "yan"), common.Pick(r, "pw", "x"), false
			case 3:
				return "-", "pw", false
			}
			pw := u.pw
			if pw == "-" || pw == "*" {
				pw = "any"
			}
			return u.name, pw, u.role == "op"
		}
		steps := r.Range(6, 40)
		for i := 0; i < steps; i++ {
			k := r.Weighted(46, 16, 2, 5, 5, 7, 2, 3, 2, 2, 8, 2)
			switch k {
			case 0: // join
				h := r.Intn(nh)
				if _, ok := member[h]; ok && r.Intn(10) != 0 {
					// a member does not join again (a web client refuses that itself)
					continue
				}
				if _, ok := member[h]; ok {
					continue
				}
				id := ids[r.Intn(len(ids))]
				used := false
				for _, x := range member {
					if x == id {
						used = true
					}
				}
				if used && r.Intn(4) != 0 {
					id = ids[r.Intn(len(ids))]
				}
				if r.Intn(40) == 0 {
					id = "-"
				}
				u, pw, op := pickCreds()
				res := do("join %d %s %s %s", h, id, u, pw)
				t.Count("join:" + kindOf(res))
				if strings.HasPrefix(res, "ok") {
					member[h] = id
					isop[h] = op
					delete(refused, h)
				} else {
					refused[h] = true
				}
			case 1: // leave a member
				if len(member) == 0 {
					continue
				}
				h := anyKey(r, member)
				do("leave %d", h)
				delete(member, h)
				delete(isop, h)
			case 2: // leave by someone who is not a member
				h := r.Intn(nh)
				do(common.Pick(r, "leave %d", "leaveforce %d", "leaveforce %d"), h)
				if _, ok := member[h]; ok {
					delete(member, h)
					delete(isop, h)
				}
			case 3:
				do("lock %s", common.Pick(r, "-", "m1", "closed_for_lunch"))
			case 4:
				do("unlock")
			case 5: // description change
				nd := genDesc(r)
				switch r.Intn(5) {
				case 0:
					d.max = nd.max
				case 1:
					d.autolock = !d.autolock
				case 2:
					d.autokick = !d.autokick
				case 3:
					d.nb, d.exp = nd.nb, nd.exp
				case 4:
					d = nd
				}
				do("setdesc %s", d)
			case 6:
				do("rmdesc")
				if r.Intn(2) == 0 {
					do("reload")
				}
				if r.Intn(3) != 0 {
					do("setdesc %s", d)
				}
			case 7:
				do("reload")
			case 8:
				do(common.Pick(r, "members", "locked"))
			case 9:
				h := r.Intn(nh)
				if _, ok := member[h]; ok {
					continue
				}
				res := do("joinsys %d %s", h, ids[r.Intn(len(ids))])
				if strings.HasPrefix(res, "ok") {
					member[h] = "sys"
					delete(refused, h)
				}
			case 10, 11: // the forced schedule: one operator present, a non-member joins while it leaves
				var ops []int
				for h := range isop {
					if isop[h] {
						ops = append(ops, h)
					}
				}
				sort.Ints(ops)
				if len(ops) == 0 {
					continue
				}
				oph := ops[r.Intn(len(ops))]
				jh := r.Intn(nh)
				if _, ok := member[jh]; ok {
					continue
				}
				u, pw, op := pickCreds()
				id := ids[r.Intn(len(ids))]
				res := do("p9 %d %s %s %s %d", jh, id, u, pw, oph)
				t.Count("p9:" + strings.Join(strings.Fields(res + " x x")[:2], ":"))
				if strings.HasPrefix(res, "sched=1") {
					delete(member, oph)
					delete(isop, oph)
				}
				if strings.Contains(res, " ok ") {
					member[jh] = id
					isop[jh] = op
					delete(refused, jh)
				} else if !strings.HasPrefix(res, "badsched") {
					refused[jh] = true
				}
			}
		}
		do("members")
		do("locked")
		var rs []int
		for h := range refused {
			rs = append(rs, h)
		}
		sort.Ints(rs)
		for _, h := range rs {
			do("permsof %d", h)
		}
	}
	if !thorough {
		return
	}
}

// kindOf: "ok", "fail:locked", ... (the first result token without its detail)
func kindOf(res string) string {
	f := strings.Fields(res + " x")[0]
	parts := strings.SplitN(f, ":", 3)
	if len(parts) >= 2 {
		return parts[0] + ":" + parts[1]
	}
	return parts[0]
}

func anyKey(r *common.Rng, m map[int]string) int {
	var ks []int
	for k := range m {
		ks = append(ks, k)
	}
	sort.Ints(ks)
	return ks[r.Intn(len(ks))]
}

// childShutdown: a WHIP client is a member of a group; group.Shutdown locks every group and calls
// kickall, which calls Kick on every member while holding g.mu (Group.Range); WhipClient.Kick
// is Close, which calls group.DelClient, which needs g.mu: the goroutine deadlocks with itself,
// holding groups.mu and g.mu.  Prints `done` or `deadlock`.
func childShutdown() {
	dir, err := os.MkdirTemp("", "verifshutdown")
	if err != nil {
		panic(err)
	}
	defer os.RemoveAll(dir)
	group.Directory = dir
	group.DataDirectory = dir
	os.WriteFile(filepath.Join(dir, "sd.json"), []byte(`{"users":{"w":{"password":"pw","permissions":"present"}}}`), 0600)
	g, err := group.Add("sd", nil)
	if err != nil {
		fmt.Println("fail:add")
		return
	}
	w := rtpconn.NewWhipClient(g, "whip", "", nil)
	uw := "w"
	if _, err := group.AddClient("sd", w, group.ClientCredentials{Username: &uw, Password: "pw"}); err != nil {
		fmt.Println("fail:whipjoin")
		return
	}
	done := make(chan struct{})
	go func() {
		group.Shutdown("server is shutting down")
		close(done)
	}()
	select {
	case <-done:
		fmt.Println("done")
	case <-time.After(400 * time.Millisecond):
		fmt.Println("deadlock")
	}
}

func main() {
	log.SetOutput(io.Discard)
	if len(os.Args) >= 2 && os.Args[1] == "child-shutdown" {
		childShutdown()
		return
	}
	if len(os.Args) >= 2 && os.Args[1] == "child-loopstress" {
		childLoopStress(os.Args[2:])
		return
	}
	if len(os.Args) >= 2 && os.Args[1] == "stress" {
		stressMain()
		return
	}
	common.Main(&eng{}, gen)
}
