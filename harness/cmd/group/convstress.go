// `convstress <members> <rounds>` (C14): real concurrency on group.AddClient / group.DelClient.
// A group is filled with <members> members; in every round one member leaves while four newcomers
// join, all from goroutines of their own.  Every member folds the add/delete events it is sent
// (PushClient is synchronous for these clients) into a list, as static/protocol.js does.  After each
// round nothing is in flight, so every member's list must equal the group's membership: a join that
// falls between a leave's removal and its announcements must neither keep the leaver (ghost) nor
// miss anybody.
package main

import (
	"fmt"
	"net"
	"os"
	"sort"
	"strings"
	"sync"

	"github.com/jech/galene/conn"
	"github.com/jech/galene/group"
)

type convClient struct {
	id   string
	mu   sync.Mutex
	g    *group.Group
	view map[string]bool
	user string
}

func (c *convClient) Group() *group.Group {
	c.mu.Lock()
	defer c.mu.Unlock()
	return c.g
}
func (c *convClient) setGroup(g *group.Group) {
	c.mu.Lock()
	c.g = g
	c.mu.Unlock()
}
func (c *convClient) Addr() net.Addr                { return nil }
func (c *convClient) Id() string                    { return c.id }
func (c *convClient) Username() string              { return c.user }
func (c *convClient) Init(u string, p []string)     { c.user = u }
func (c *convClient) Permissions() []string         { return []string{"present"} }
func (c *convClient) Data() map[string]interface{} { return nil }
func (c *convClient) PushConn(g *group.Group, id string, up conn.Up, tracks []conn.UpTrack, replace string) error {
	return nil
}
func (c *convClient) RequestConns(target group.Client, g *group.Group, id string) error { return nil }
func (c *convClient) Joined(g, kind string) error {
	if kind == "leave" {
		c.mu.Lock()
		c.view = map[string]bool{}
		c.mu.Unlock()
	}
	return nil
}
func (c *convClient) PushClient(g, kind, id, username string, perms []string, data map[string]interface{}) error {
	c.mu.Lock()
	switch kind {
	case "add", "change":
		c.view[id] = true
	case "delete":
		delete(c.view, id)
	}
	c.mu.Unlock()
	return nil
}
func (c *convClient) Kick(id string, user *string, message string) error { return nil }

func (c *convClient) list() string {
	c.mu.Lock()
	defer c.mu.Unlock()
	var l []string
	for id := range c.view {
		l = append(l, id)
	}
	sort.Strings(l)
	return strings.Join(l, ",")
}

func convStress(members, rounds int) string {
	dir, err := os.MkdirTemp("", "verifconv")
	if err != nil {
		return "env:" + err.Error()
	}
	defer os.RemoveAll(dir)
	oldDir, oldData := group.Directory, group.DataDirectory
	group.Directory, group.DataDirectory = dir, dir
	defer func() { group.Directory, group.DataDirectory = oldDir, oldData }()
	name := "conv"
	if err := os.WriteFile(dir+"/"+name+".json", []byte(`{"users":{"u":{"password":"p","permissions":"present"}}}`), 0600); err != nil {
		return "env:" + err.Error()
	}
	if _, err := group.Add(name, nil); err != nil {
		return "env:add-" + strings.ReplaceAll(err.Error(), " ", "_")
	}
	g := group.Get(name)
	u := "u"
	creds := group.ClientCredentials{Username: &u, Password: "p"}
	next := 0
	newClient := func() *convClient {
		next++
		return &convClient{id: fmt.Sprintf("m%d", next), view: map[string]bool{}}
	}
	join := func(c *convClient) bool {
		gg, err := group.AddClient(name, c, creds)
		if err != nil {
			return false
		}
		c.setGroup(gg)
		return true
	}
	var live []*convClient
	for i := 0; i < members; i++ {
		c := newClient()
		if !join(c) {
			return "env:join-refused"
		}
		live = append(live, c)
	}
	for r := 0; r < rounds; r++ {
		leaver := live[r%len(live)]
		joiners := []*convClient{newClient(), newClient(), newClient(), newClient()}
		var wg sync.WaitGroup
		start := make(chan struct{})
		oks := make([]bool, len(joiners))
		wg.Add(1)
		go func() {
			defer wg.Done()
			<-start
			group.DelClient(leaver)
			leaver.setGroup(nil)
		}()
		for k, j := range joiners {
			wg.Add(1)
			go func(k int, j *convClient) {
				defer wg.Done()
				<-start
				oks[k] = join(j)
			}(k, j)
		}
		close(start)
		wg.Wait()
		var nl []*convClient
		for _, c := range live {
			if c != leaver {
				nl = append(nl, c)
			}
		}
		for k, j := range joiners {
			if !oks[k] {
				return "env:join-refused"
			}
			nl = append(nl, j)
		}
		live = nl
		// keep the group at its size: the oldest members leave, one after the other
		for len(live) > members {
			c := live[0]
			live = live[1:]
			group.DelClient(c)
			c.setGroup(nil)
		}
		var ids []string
		for _, c := range g.GetClients(nil) {
			ids = append(ids, c.Id())
		}
		sort.Strings(ids)
		truth := strings.Join(ids, ",")
		for _, c := range live {
			if l := c.list(); l != truth {
				return fmt.Sprintf("bad:round-%d:%s-lists:%s:members:%s:left-this-round:%s", r, c.id, diffList(l, truth), fmt.Sprint(len(ids)), leaver.id)
			}
		}
	}
	for _, c := range live {
		group.DelClient(c)
	}
	return "ok"
}

// what is in the list but not in the membership (+) and the other way round (-)
func diffList(l, truth string) string {
	in := map[string]bool{}
	for _, x := range strings.Split(truth, ",") {
		in[x] = true
	}
	have := map[string]bool{}
	var out []string
	for _, x := range strings.Split(l, ",") {
		have[x] = true
		if !in[x] {
			out = append(out, "+"+x)
		}
	}
	for x := range in {
		if !have[x] {
			out = append(out, "-"+x)
		}
	}
	sort.Strings(out)
	return strings.Join(out, ",")
}
