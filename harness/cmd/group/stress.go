// `group stress [scenario]`: concurrent lifecycle operations for the -race build
// (thorough tier of C13).  The race detector's reports on stderr are the
// evidence; the runner turns each report into an event keyed by the galene
// functions on top of the two stacks.  Without an argument every scenario is
// run in a child process of its own (a "concurrent map iteration and map
// write" abort of one scenario must not hide the others).
package main

import (
	"fmt"
	"os"
	"os/exec"
	"path/filepath"
	"sync"
	"time"

	"github.com/jech/galene/group"
	"github.com/jech/galene/rtpconn"
)

var scenarios = []string{"lifecycle", "description", "whip"}

func stressMain() {
	if len(os.Args) >= 3 {
		runScenario(os.Args[2])
		return
	}
	rc := 0
	for _, s := range scenarios {
		cmd := exec.Command(os.Args[0], "stress", s)
		cmd.Stdout = os.Stdout
		cmd.Stderr = os.Stderr
		err := cmd.Run()
		fmt.Printf("# scenario %s: %v\n", s, err)
		if err != nil {
			rc = 1
		}
	}
	os.Exit(rc)
}

func stressDuration() time.Duration {
	if os.Getenv("VERIF_TIER") == "thorough" {
		return 3 * time.Second
	}
	return 500 * time.Millisecond
}

func runScenario(s string) {
	dir, err := os.MkdirTemp("", "verifstress")
	if err != nil {
		panic(err)
	}
	defer os.RemoveAll(dir)
	group.Directory = dir
	group.DataDirectory = dir
	e := &eng{dir: dir, mocks: map[int]*mock{}, events: map[int][]event{}}
	switch s {
	case "lifecycle":
		stressLifecycle(e)
	case "description":
		stressDescription(e)
	case "whip":
		stressWhip(e)
	default:
		panic("unknown scenario " + s)
	}
}

const stressDesc = `{"autolock":%v,"max-clients":6,"users":{"o":{"password":"p","permissions":"op"},"a":{"password":"p","permissions":"present"},"w":{"password":"p","permissions":"present"}}%s}`

func writeStressDesc(dir, name string, v int) {
	fn := filepath.Join(dir, name+".json")
	tmp := fn + ".tmp"
	os.WriteFile(tmp, []byte(fmt.Sprintf(stressDesc, name != "s3", fmt.Sprintf(`,"comment":"%0*d"`, 1+v%7, v))), 0600)
	os.Rename(tmp, fn)
}

// joins, leaves (incl. the last operator's, which runs autoLockKick), lock
// changes and membership queries on one autolock group
func stressLifecycle(e *eng) {
	name := "s1"
	writeStressDesc(e.dir, name, 0)
	if _, err := group.Add(name, nil); err != nil {
		panic(err)
	}
	g := group.Get(name)
	stop := time.Now().Add(stressDuration())
	var wg sync.WaitGroup
	worker := func(h int, user string) {
		defer wg.Done()
		m := &mock{e: e, h: h, id: fmt.Sprintf("c%d", h)}
		u := user
		for time.Now().Before(stop) {
			gg, err := group.AddClient(name, m, group.ClientCredentials{Username: &u, Password: "p"})
			if err == nil {
				m.setGroup(gg)
				g.GetClients(nil)
				group.DelClient(m)
				m.setGroup(nil)
			}
		}
	}
	for h := 0; h < 3; h++ {
		wg.Add(1)
		go worker(h, "o")
	}
	for h := 3; h < 7; h++ {
		wg.Add(1)
		go worker(h, "a")
	}
	wg.Add(1)
	go func() {
		defer wg.Done()
		for time.Now().Before(stop) {
			g.SetLocked(false, "")
			g.Locked()
			g.ClientCount()
			g.SetLocked(true, "x")
			g.SetLocked(false, "")
		}
	}()
	wg.Wait()
	fmt.Println("# lifecycle done")
}

// description reloads (group.Add after the file changed) against readers of the description
func stressDescription(e *eng) {
	name := "s2"
	writeStressDesc(e.dir, name, 0)
	if _, err := group.Add(name, nil); err != nil {
		panic(err)
	}
	g := group.Get(name)
	stop := time.Now().Add(stressDuration())
	var wg sync.WaitGroup
	wg.Add(4)
	go func() {
		defer wg.Done()
		for v := 1; time.Now().Before(stop); v++ {
			writeStressDesc(e.dir, name, v)
			group.Add(name, nil)
		}
	}()
	go func() {
		defer wg.Done()
		for time.Now().Before(stop) {
			group.GetDescription(name)
			group.GetSanitisedDescription(name)
		}
	}()
	go func() {
		defer wg.Done()
		for time.Now().Before(stop) {
			g.Description()
			g.Status(true, nil)
			group.GetPublic(nil)
			for _, h := range g.GetChatHistory() {
				// read what the join replay reads (unlocked): must be a private copy
				_ = h.Id + h.Source + h.Kind
				_ = h.Time
			}
			g.UserExists("a")
		}
	}()
	wg.Add(1)
	go func() {
		defer wg.Done()
		u := "w"
		for i := 0; time.Now().Before(stop); i++ {
			g.AddToChatHistory(fmt.Sprint(i), "s", &u, time.Now(), "", "v")
			if i%97 == 0 {
				g.ClearChatHistory("", "s")
			}
		}
	}()
	go func() {
		defer wg.Done()
		for time.Now().Before(stop) {
			group.GetUsers(name)
			group.GetSubGroups(name)
		}
	}()
	wg.Wait()
	fmt.Println("# description done")
}

// WHIP session teardown against the readers of the session's group pointer
func stressWhip(e *eng) {
	name := "s3"
	writeStressDesc(e.dir, name, 0)
	g, err := group.Add(name, nil)
	if err != nil {
		panic(err)
	}
	// an operator stays inside, so that nobody walks the members calling Permissions() under g.mu
	// while a WHIP client closes (that is finding P14, a deadlock, exercised by op `whipdl`)
	o := &mock{e: e, h: 0, id: "op"}
	uo, uw := "o", "w"
	if _, err := group.AddClient(name, o, group.ClientCredentials{Username: &uo, Password: "p"}); err != nil {
		panic(err)
	}
	target := &mock{e: e, h: 1, id: "t"}
	n := 300
	if os.Getenv("VERIF_TIER") == "thorough" {
		n = 3000
	}
	for i := 0; i < n; i++ {
		w := rtpconn.NewWhipClient(g, fmt.Sprintf("w%d", i), "", nil)
		// joining walks the members under g.mu: do it before the concurrent part
		if _, err := group.AddClient(name, w, group.ClientCredentials{Username: &uw, Password: "p"}); err != nil {
			panic(err)
		}
		var wg sync.WaitGroup
		wg.Add(2)
		go func() {
			defer wg.Done()
			w.Close()
		}()
		go func() {
			defer wg.Done()
			w.Group()
			w.RequestConns(target, g, "x")
		}()
		wg.Wait()
	}
	fmt.Println("# whip done")
}
