// Engine `paths`: the real name/path validators of galene (C19) and the ETag
// string functions of webserver/precondition.go (C18) vs the Lean models
// Model/Paths.lean and Model/Etag.lean.
//
// Strings on the wire: every byte outside [A-Za-z0-9_.-] is written %XX; the
// empty string is a lone `%` (same in lean/GaleneVerif/Engine/Paths.lean).
package main

import (
	"errors"
	"fmt"
	"io"
	"io/fs"
	"log"
	"net/http"
	"net/http/httptest"
	"net/url"
	"os"
	"path"
	"path/filepath"
	"sort"
	"strings"
	"time"

	"github.com/jech/galene/diskwriter"
	"github.com/jech/galene/group"
	"github.com/jech/galene/webserver"
	"github.com/jech/galene/zzverif/common"
)

// ---------------------------------------------------------------------------
// wire encoding

func plain(c byte) bool {
	return c >= 'A' && c <= 'Z' || c >= 'a' && c <= 'z' || c >= '0' && c <= '9' || c == '_' || c == '.' || c == '-'
}

func esc(s string) string {
	if s == "" {
		return "%"
	}
	var b strings.Builder
	for i := 0; i < len(s); i++ {
		if plain(s[i]) {
			b.WriteByte(s[i])
		} else {
			fmt.Fprintf(&b, "%%%02X", s[i])
		}
	}
	return b.String()
}

func hexv(c byte) int {
	switch {
	case c >= '0' && c <= '9':
		return int(c - '0')
	case c >= 'a' && c <= 'f':
		return int(c-'a') + 10
	case c >= 'A' && c <= 'F':
		return int(c-'A') + 10
	}
	panic("bad escape in op")
}

func unesc(t string) string {
	if t == "%" {
		return ""
	}
	var b []byte
	for i := 0; i < len(t); i++ {
		if t[i] == '%' {
			if i+2 >= len(t) {
				panic("bad escape in op")
			}
			b = append(b, byte(hexv(t[i+1])*16+hexv(t[i+2])))
			i += 2
		} else if plain(t[i]) {
			b = append(b, t[i])
		} else {
			panic("bad byte in op token")
		}
	}
	return string(b)
}

// ---------------------------------------------------------------------------
// scratch tree for the file-system ops (created lazily, removed at exit)

const descJSON = `{"allow-recording":true,"users":{"u":{"password":"p","permissions":"op"}}}`

// files whose content is their own label (path relative to the scratch base)
var treeFiles = []string{
	"secret", "static/404.html", "static/index.html", "static/sub/x.css", "static/sub/index.html", "static/noindex/y.js", "rec/top", "rec/a/f1", "rec/a/.h", "rec/a/x\\y", "rec/a/b/f2", "rec/c/f3", "rec/d/f4", "rec/.hid/f5",
}
var treeDirs = []string{"data", "groups", "rec/e", "recroot/g"}

// groups that have a description in which user u (password p) is an operator
var descGroups = []string{"a", "a/b", "c", "e", ".hid"}

type eng struct {
	base    string
	recRoot *os.Root
}

func (e *eng) ensureTree() {
	if e.base != "" {
		return
	}
	parent := os.TempDir()
	if r := os.Getenv("VERIF_ROOT"); r != "" {
		parent = filepath.Join(r, ".build")
	}
	base, err := os.MkdirTemp(parent, "paths-fs-")
	if err != nil {
		panic(err)
	}
	e.base = base
	e.restore()
	for _, g := range descGroups {
		fn := filepath.Join(base, "groups", g+".json")
		os.MkdirAll(filepath.Dir(fn), 0700)
		if err := os.WriteFile(fn, []byte(descJSON), 0600); err != nil {
			panic(err)
		}
	}
	if err := os.WriteFile(filepath.Join(base, "data", "config.json"), []byte(`{"writableGroups":true}`), 0600); err != nil {
		panic(err)
	}
	group.Directory = filepath.Join(base, "groups")
	group.DataDirectory = filepath.Join(base, "data")
	diskwriter.Directory = filepath.Join(base, "rec")
	e.recRoot, err = os.OpenRoot(filepath.Join(base, "recroot", "g"))
	if err != nil {
		panic(err)
	}
	if err := webserver.VerifSetStaticRoot(filepath.Join(base, "static")); err != nil {
		panic(err)
	}
	log.SetOutput(io.Discard)
}

// restore (re)creates whatever is missing from the scratch tree.
func (e *eng) restore() {
	for _, d := range treeDirs {
		if err := os.MkdirAll(filepath.Join(e.base, d), 0700); err != nil {
			panic(err)
		}
	}
	for _, f := range treeFiles {
		fn := filepath.Join(e.base, f)
		if b, err := os.ReadFile(fn); err == nil && string(b) == f {
			continue
		}
		os.MkdirAll(filepath.Dir(fn), 0700)
		if err := os.WriteFile(fn, []byte(f), 0600); err != nil {
			panic(err)
		}
	}
}

func (e *eng) cleanup() {
	if e.base != "" {
		if e.recRoot != nil {
			e.recRoot.Close()
		}
		os.RemoveAll(e.base)
		e.base = ""
	}
}

// snapshot lists every path below the scratch base (relative), files with their content.
func (e *eng) snapshot() map[string]string {
	m := map[string]string{}
	filepath.WalkDir(e.base, func(p string, d fs.DirEntry, err error) error {
		if err != nil {
			return nil
		}
		rel, _ := filepath.Rel(e.base, p)
		if d.IsDir() {
			m[rel] = "<dir>"
		} else {
			b, _ := os.ReadFile(p)
			m[rel] = string(b)
		}
		return nil
	})
	return m
}

// kind observes what root.Open(p) is, with the same os.Root calls recordingsHandler makes.
func (e *eng) kind(p string) (k string) {
	defer func() {
		if r := recover(); r != nil {
			// go1.24.0: os.Root.Open panics on paths such as "a/.." (index out of range in doInRoot)
			k = "rootpanic"
		}
	}()
	root, err := os.OpenRoot(filepath.Join(e.base, "rec"))
	if err != nil {
		panic(err)
	}
	defer root.Close()
	f, err := root.Open(p)
	if err != nil {
		if errors.Is(err, os.ErrNotExist) {
			return "none"
		}
		return "err"
	}
	defer f.Close()
	fi, err := f.Stat()
	if err != nil {
		return "err"
	}
	if fi.IsDir() {
		return "dir"
	}
	return "file"
}

func (e *eng) Reset() {}

// serve runs a handler; true if it panicked.
func serve(h func(http.ResponseWriter, *http.Request), w http.ResponseWriter, r *http.Request) (panicked bool) {
	defer func() {
		if x := recover(); x != nil {
			panicked = true
		}
	}()
	h(w, r)
	return false
}

const tsLayout = "2006-01-02T15:04:05.000"

func (e *eng) Exec(op []string) string {
	b := common.B2s
	switch op[0] {
	case "clean":
		return esc(path.Clean(unesc(op[1])))
	case "validgroup":
		return b(group.VerifValidGroupName(unesc(op[1])))
	case "validuser":
		return b(group.VerifValidUsername(unesc(op[1])))
	case "parsegroup", "parsesafe":
		return esc(webserver.VerifParseGroupName(unesc(op[1]), unesc(op[2])))
	case "splitpath":
		x, y, z := webserver.VerifSplitPath(unesc(op[1]))
		return esc(x) + " " + esc(y) + " " + esc(z)
	case "descfiles":
		tried, file, isSub, found := group.VerifDescFiles(unesc(op[1]), unesc(op[2]), op[3] != "0", common.Atoi(op[4]))
		out := []string{fmt.Sprint(len(tried))}
		for _, f := range tried {
			out = append(out, esc(f))
		}
		if found {
			out = append(out, "found", esc(file), b(isSub))
		} else {
			out = append(out, "notfound")
		}
		return strings.Join(out, " ")
	case "sanitise":
		return esc(diskwriter.VerifSanitise(unesc(op[1])))
	case "recfile":
		e.ensureTree()
		dir := filepath.Join(e.base, "recroot", "g")
		f, err := diskwriter.VerifOpenDiskFile(e.recRoot, unesc(op[1]), unesc(op[2]))
		if err != nil {
			return "err"
		}
		f.Close()
		name, where := "", "root"
		ents, _ := os.ReadDir(dir)
		if len(ents) == 1 && !ents[0].IsDir() {
			name = ents[0].Name()
			os.Remove(filepath.Join(dir, name))
		} else {
			// not (only) where it should be: find it
			where = "elsewhere"
			known := map[string]bool{}
			for _, f := range treeFiles {
				known[f] = true
			}
			for p, c := range e.snapshot() {
				if c != "<dir>" && !known[p] && !strings.HasPrefix(p, "groups/") {
					name = p
					os.Remove(filepath.Join(e.base, p))
				}
			}
			os.RemoveAll(dir)
			e.restore()
		}
		if len(name) >= len(tsLayout) {
			if _, err := time.Parse(tsLayout, name[:len(tsLayout)]); err == nil {
				name = tsLayout + name[len(tsLayout):]
			}
		}
		return esc(name) + " " + where
	case "recget":
		e.ensureTree()
		p := unesc(op[1])
		if k := e.kind(p); k != op[2] {
			return "envchanged:" + k
		}
		req := &http.Request{Method: "GET", URL: &url.URL{Path: "/recordings/" + p}, Header: http.Header{}, Host: "localhost"}
		req.SetBasicAuth("u", "p")
		w := httptest.NewRecorder()
		if serve(webserver.VerifRecordingsHandler, w, req) {
			return "rootpanic -"
		}
		served := "-"
		if w.Code == 200 {
			body := w.Body.String()
			if strings.HasPrefix(body, "<!DOCTYPE html>") {
				served = "list"
			} else {
				if len(body) > 60 {
					body = body[:60]
				}
				served = esc(body)
			}
		}
		return fmt.Sprintf("%d %s", w.Code, served)
	case "recdel":
		e.ensureTree()
		p := unesc(op[1])
		if k := e.kind(p); k != op[2] {
			return "envchanged:" + k
		}
		before := e.snapshot()
		form := url.Values{"q": {"delete"}, "filename": {unesc(op[3])}}
		req := &http.Request{Method: "POST", URL: &url.URL{Path: "/recordings/" + p},
			Header: http.Header{"Content-Type": {"application/x-www-form-urlencoded"}},
			Body:   io.NopCloser(strings.NewReader(form.Encode())), Host: "localhost"}
		req.SetBasicAuth("u", "p")
		w := httptest.NewRecorder()
		if serve(webserver.VerifRecordingsHandler, w, req) {
			w.Code = 0
		}
		after := e.snapshot()
		var gone []string
		for k, v := range before {
			if v2, ok := after[k]; !ok || v2 != v {
				gone = append(gone, k)
			}
		}
		for k := range after {
			if _, ok := before[k]; !ok {
				gone = append(gone, "new:"+k)
			}
		}
		sort.Strings(gone)
		removed := "-"
		if len(gone) == 1 {
			removed = esc(gone[0])
		} else if len(gone) > 1 {
			removed = "many"
		}
		if len(gone) > 0 {
			e.restore()
		}
		return fmt.Sprintf("%d %s", w.Code, removed)
	case "descupdate":
		// group.UpdateDescription(name, "", {}) on the scratch tree: which paths appear?
		e.ensureTree()
		before := e.snapshot()
		err := group.UpdateDescription(unesc(op[1]), "", &group.Description{})
		after := e.snapshot()
		var diff []string
		other := 0
		for k, v := range after {
			if v0, ok := before[k]; !ok {
				diff = append(diff, k)
			} else if v0 != v {
				other++
			}
		}
		for k := range before {
			if _, ok := after[k]; !ok {
				other++
			}
		}
		sort.Strings(diff)
		out := []string{"ok", fmt.Sprint(len(diff))}
		if err != nil {
			out[0] = "err"
		}
		for i := len(diff) - 1; i >= 0; i-- {
			os.Remove(filepath.Join(e.base, diff[i]))
		}
		for _, d := range diff {
			out = append(out, esc(d))
		}
		out = append(out, fmt.Sprint(other))
		if len(diff) > 0 || other > 0 {
			e.restore()
		}
		return strings.Join(out, " ")
	case "recnew":
		// a recording end to end: group.Add(name) (validGroupName), diskwriter.New (MkdirAll + OpenRoot of
		// Directory/name), openDiskFile(root, username): which paths appear below the scratch base?
		e.ensureTree()
		name := unesc(op[1])
		g, err := group.Add(name, &group.Description{})
		if err != nil {
			return "rejected"
		}
		before := e.snapshot()
		newErr, openErr := diskwriter.VerifNewAndOpen(g, unesc(op[2]), "webm")
		group.Delete(name)
		after := e.snapshot()
		var diff []string
		other := 0
		for k, v := range after {
			if v0, ok := before[k]; !ok {
				diff = append(diff, k)
			} else if v0 != v {
				other++
			}
		}
		for k := range before {
			if _, ok := after[k]; !ok {
				other++
			}
		}
		sort.Strings(diff)
		status := "ok"
		if newErr != nil {
			status = "newerr"
		} else if openErr != nil {
			status = "openerr"
		}
		out := []string{status, fmt.Sprint(len(diff))}
		for i := len(diff) - 1; i >= 0; i-- {
			os.Remove(filepath.Join(e.base, diff[i]))
		}
		for _, d := range diff {
			// mask the time stamp of the file name
			dir, file := path.Split(d)
			if len(file) >= len(tsLayout) {
				if _, err := time.Parse(tsLayout, file[:len(tsLayout)]); err == nil {
					d = dir + tsLayout + file[len(tsLayout):]
				}
			}
			out = append(out, esc(d))
		}
		out = append(out, fmt.Sprint(other))
		if len(diff) > 0 || other > 0 {
			e.restore()
		}
		return strings.Join(out, " ")
	case "static":
		e.ensureTree()
		req := &http.Request{Method: "GET", URL: &url.URL{Path: "/" + unesc(op[1])}, Header: http.Header{}, Host: "localhost"}
		w := httptest.NewRecorder()
		if serve(webserver.VerifStaticHandler, w, req) {
			return "rootpanic -"
		}
		served := "-"
		if w.Code == 200 {
			body := w.Body.String()
			if len(body) > 60 {
				body = body[:60]
			}
			served = esc(body)
		}
		return fmt.Sprintf("%d %s", w.Code, served)
	case "scanetag":
		x, y := webserver.VerifScanETag(unesc(op[1]))
		return esc(x) + " " + esc(y)
	case "etagmatch":
		return b(webserver.VerifEtagMatch(unesc(op[1]), unesc(op[2])))
	case "precond":
		req := &http.Request{Method: unesc(op[1]), URL: &url.URL{Path: "/"}, Header: http.Header{}}
		if im := unesc(op[3]); im != "" {
			req.Header.Set("If-Match", im)
		}
		if inm := unesc(op[4]); inm != "" {
			req.Header.Set("If-None-Match", inm)
		}
		w := httptest.NewRecorder()
		done := webserver.VerifCheckPreconditions(w, req, unesc(op[2]))
		if !done {
			return "continue"
		}
		return fmt.Sprint(w.Code)
	}
	panic("unknown op " + op[0])
}

// ---------------------------------------------------------------------------
// generators

// enum calls f on every string of at most maxLen symbols over alpha (shortest first).
func enum(alpha []string, maxLen int, f func(s string, n int)) {
	f("", 0)
	idx := make([]int, maxLen)
	for n := 1; n <= maxLen; n++ {
		for i := range idx[:n] {
			idx[i] = 0
		}
		for {
			var sb strings.Builder
			for _, k := range idx[:n] {
				sb.WriteString(alpha[k])
			}
			f(sb.String(), n)
			i := n - 1
			for i >= 0 {
				idx[i]++
				if idx[i] < len(alpha) {
					break
				}
				idx[i] = 0
				i--
			}
			if i < 0 {
				break
			}
		}
	}
}

var pathAlpha = []string{"a", ".", "/", "\\", "%", "\x00", "\xc3\xa9"}
var pathPieces = []string{"..", ".", "/", "//", "a", "b", "a/b", "./", "../", "...", "\\", "%2e", "%2F", "\xc3\xa9", "\x00",
	".a", "a.", " ", "~", "group", ".json", "/.", "/..", "c", "..a", "\xff", "a\\b", "/group/", ".status", ".whip"}
var descDirs = []string{"/D", "groups", "./groups/", "/", ".", "..", "../g/", "/x/../D//", "a/b", "./", "/a/./b/../c"}

func pieces(r *common.Rng, ps []string, n int) string {
	var sb strings.Builder
	for i := 0; i < n; i++ {
		sb.WriteString(common.Pick(r, ps...))
	}
	return sb.String()
}

type ctx struct {
	t  *common.Trace
	e  common.Engine
	i  int
	do func(f string, args ...any) string
}

// pathOps runs the C19 ops on one string.  level 0: every op; 1: the validators and the file-name
// computations; 2: Clean, validGroupName, parseGroupName, getDescriptionFile only.
func (c *ctx) pathOps(s string, level int, fsops bool) {
	t, do := c.t, c.do
	es := esc(s)
	do("clean %s", es)
	vg := do("validgroup %s", es)
	t.Count("validgroup:" + vg)
	if level <= 1 {
		do("validuser %s", es)
	}
	pop := "parsegroup"
	if strings.Contains(s, "\\") {
		// names with a backslash: the agreement clause is exercised in the p21 section at the end of the trace
		pop = "parsesafe"
	}
	res := do("%s %% %s", pop, es)
	if res == "%" {
		t.Count("parse:reject")
	} else if res == es {
		t.Count("parse:accept-unchanged")
	} else {
		t.Count("parse:accept-cleaned")
	}
	if level <= 1 {
		do("%s %s %s", pop, esc("/group/"), esc("/group/"+s))
	}
	dir := descDirs[c.i%len(descDirs)]
	hit := 99
	if c.i%5 == 0 {
		hit = c.i / 5 % 4
	}
	allow := 1
	if c.i%3 == 0 {
		allow = 0
	}
	r := do("descfiles %s %s %d %d", esc(dir), es, allow, hit)
	t.Count("descfiles:n=" + strings.Fields(r)[0])
	if level == 0 {
		do("clean %s", esc("/"+s))
		do("splitpath %s", es)
		do("sanitise %s", es)
		if c.i%11 == 0 {
			do("parsesafe %s %s", esc("/grp/"), es)
			do("descfiles %% %s 1 99", es)
		}
	}
	if fsops {
		nr := do("recnew %s %s", es, esc(recUsers[c.i%len(recUsers)]))
		t.Count("recnew:" + strings.Fields(nr)[0])
		ur := do("descupdate %s", es)
		t.Count("descupdate:" + strings.Join(strings.Fields(ur)[:2], ":"))
		fr := do("recfile %s webm", es)
		if fr == "err" {
			t.Count("recfile:err")
		} else {
			t.Count("recfile:ok")
		}
	}
	c.i++
}

var recUsers = []string{"", "u", "../x", "a/b", "\\", "..", "/", "a\\..\\b", "\xc3\xa9", ".", "u\x00"}
var recPieces = []string{"a", "b", "c", "d", "e", "f1", "f2", "f3", ".h", ".hid", "f5", "..", ".", "", "top", "x\\y", "secret",
	"groups", "rec", "zz", "a.json", "\x00"}
var delNames = []string{"f1", ".h", "..", ".", "", "b/f2", "../c/f3", "x\\y", "b", "zz", "f1/", "/f1", "\\f1", "../../secret",
	"f2", "f3", "f4", "top", "a", "\x00", "f1\x00", "./f1", "..\\f1", "secret", "x/y", "%2e%2e"}

func (c *ctx) recGet(p string) {
	ee := c.e.(*eng)
	ee.ensureTree()
	r := c.do("recget %s %s", esc(p), ee.kind(p))
	f := strings.Fields(r)
	c.t.Count("recget:" + f[0])
}

func (c *ctx) static(p string) {
	r := c.do("static %s", esc(p))
	c.t.Count("static:" + strings.Fields(r)[0])
}

func (c *ctx) recDel(p, fn string) {
	ee := c.e.(*eng)
	ee.ensureTree()
	r := c.do("recdel %s %s %s", esc(p), ee.kind(p), esc(fn))
	f := strings.Fields(r)
	c.t.Count("recdel:" + f[0])
	if len(f) > 1 && f[1] != "-" {
		c.t.Count("recdel:removed")
	}
}

var etagAlpha = []string{"\"", "*", ",", "W", "/", "a", " "}
var etagBytes = []string{" ", "!", "\"", "#", "~", "\x7f", "\x80", "\xff", "\t", "\n", "\r", "\x00", "\x1f", "a", "W", "/", ",", "*", "W/"}
var etags = []string{"", `"a"`, `W/"a"`, `""`, `"aa"`, `a`, `*`, `"a`, `W/""`, `"a,a"`, `,`, ` "a"`}
var headerPool = []string{"", "*", `"a"`, `"b"`, `"b", "a"`, `W/"a"`, `"b" , "a"`, ` "a" `, `"a" x "b"`, `"b" "a"`, `"a`, `,,"a"`,
	`"b", *`, `a`, `* "a"`, `W/"b", W/"a"`, `""`, `"a,a"`, "\t\"a\"\r\n"}
var methods = []string{"GET", "HEAD", "PUT", "DELETE", "POST", "get", "OPTIONS", ""}

func (c *ctx) etagOps(h string, level int) {
	t, do := c.t, c.do
	eh := esc(h)
	r := do("scanetag %s", eh)
	if strings.HasPrefix(r, "% ") {
		t.Count("scanetag:none")
	} else {
		t.Count("scanetag:tag")
	}
	cands := etags
	if level == 1 {
		cands = etags[:4]
	} else if level >= 2 {
		cands = etags[:2]
	}
	for _, e := range cands {
		t.Count("etagmatch:" + do("etagmatch %s %s", esc(e), eh))
	}
	// the tag the header starts with, if any, and the header itself
	if f := strings.Fields(r); len(f) == 2 && f[0] != "%" && level <= 1 {
		t.Count("etagmatch:" + do("etagmatch %s %s", f[0], eh))
	}
	if level == 0 {
		t.Count("etagmatch:" + do("etagmatch %s %s", eh, eh))
	}
}

func nrecStatic(thorough bool) int {
	if thorough {
		return 20000
	}
	return 2000
}

func gen(t *common.Trace, e common.Engine, r *common.Rng, thorough bool) {
	c := &ctx{t: t, e: e}
	c.do = func(f string, args ...any) string { return common.Do(t, e, fmt.Sprintf(f, args...)) }
	defer e.(*eng).cleanup()

	// 1. C19, exhaustive: every string of at most L symbols over {a . / \ % NUL é}
	L, Lfs := 5, 4
	if thorough {
		L, Lfs = 7, 5
	}
	enum(pathAlpha, L, func(s string, n int) {
		t.Case("p:" + esc(s))
		level := 0
		if n >= 7 {
			level = 2
		} else if n == 6 {
			level = 1
		}
		c.pathOps(s, level, n <= Lfs)
	})

	// 2. C19, random longer strings built from realistic pieces
	nrand := 4000
	if thorough {
		nrand = 150000
	}
	for i := 0; i < nrand; i++ {
		var s string
		switch r.Weighted(60, 25, 15) {
		case 0:
			s = pieces(r, pathPieces, r.Range(1, 8))
		case 1: // mostly valid names: a/b/c with an occasional bad piece
			n := r.Range(1, 5)
			var parts []string
			for j := 0; j < n; j++ {
				if r.Intn(8) == 0 {
					parts = append(parts, common.Pick(r, "", ".", "..", "a\\b", "...", ".a"))
				} else {
					parts = append(parts, common.Pick(r, "a", "b", "group", "x.y", "\xc3\xa9t\xc3\xa9", "a b", "~", "%2e%2e"))
				}
			}
			s = strings.Join(parts, "/")
			if r.Intn(6) == 0 {
				s += "/"
			}
			if r.Intn(10) == 0 {
				s = "/" + s
			}
		case 2:
			s = string(common.RandBytes(r, r.Range(1, 10)))
		}
		t.Case(fmt.Sprintf("r%d:%s", i, esc(s)))
		c.pathOps(s, 0, len(s) <= 12 && i%4 == 0)
	}

	// 3. C19, recordingsHandler end to end on the scratch tree
	recAlpha := []string{"a", "b", "/", "."}
	enum(recAlpha, 5, func(s string, n int) {
		t.Case("g:" + esc(s))
		c.recGet(s)
	})
	staticPieces := []string{"sub", "x.css", "index.html", "404.html", "noindex", "y.js", "..", ".", "", "secret", "rec", "a", "f1", "groups", "a.json", "static", "\\", "\x00"}
	for i := 0; i < nrecStatic(thorough); i++ {
		n := r.Range(1, 4)
		var parts []string
		for j := 0; j < n; j++ {
			parts = append(parts, common.Pick(r, staticPieces...))
		}
		p := strings.Join(parts, "/")
		if r.Intn(3) == 0 {
			p += "/"
		}
		t.Case(fmt.Sprintf("st%d:%s", i, esc(p)))
		c.static(p)
	}
	nrec := 3000
	if thorough {
		nrec = 30000
	}
	existing := []string{"a", "a/b", "a/f1", "a/.h", "a/x\\y", "a/b/f2", "c", "c/f3", "d", "d/f4", "e", ".hid", ".hid/f5", "top"}
	for i := 0; i < nrec; i++ {
		var p string
		if r.Intn(10) < 6 {
			// an existing path, written in a roundabout way
			p = common.Pick(r, existing...)
			for k := r.Intn(3); k > 0; k-- {
				parts := strings.Split(p, "/")
				j := r.Intn(len(parts))
				switch r.Intn(7) {
				case 0:
					parts[j] = "./" + parts[j]
				case 1:
					parts[j] = parts[j] + "/."
				case 2:
					parts[j] = "/" + parts[j]
				case 3:
					parts[j] = common.Pick(r, "zz", "a", "e", "c") + "/../" + parts[j]
				case 4:
					parts[j] = parts[j] + "/../" + parts[j]
				case 5:
					parts[j] = parts[j] + common.Pick(r, "\x00", "\\", ".", "%2F", " ")
				case 6:
					parts[j] = "../" + parts[j]
				}
				p = strings.Join(parts, "/")
			}
			switch r.Intn(6) {
			case 0, 1:
				p += "/"
			case 2:
				p += "//"
			}
		} else {
			n := r.Range(1, 4)
			var parts []string
			for j := 0; j < n; j++ {
				parts = append(parts, common.Pick(r, recPieces...))
			}
			p = strings.Join(parts, "/")
			if r.Intn(3) == 0 {
				p += "/"
			}
			if r.Intn(12) == 0 {
				p = "/" + p
			}
		}
		t.Case(fmt.Sprintf("rec%d:%s", i, esc(p)))
		c.recGet(p)
		if i%2 == 0 {
			c.recDel(p, common.Pick(r, delNames...))
		}
	}
	for _, p := range []string{"a/", "a/b/", "c/", "e/", "d/", "a", "a/b", "a//", "a/./", "a/b/../", "a/f1", ".hid/", "", "/", "./", "../"} {
		for _, fn := range delNames {
			t.Case("del:" + esc(p) + ":" + esc(fn))
			c.recDel(p, fn)
		}
	}

	// 4. C18: every string of at most L symbols over {" * , W / a space} as a header value
	enum(etagAlpha, L, func(s string, n int) {
		t.Case("e:" + esc(s))
		level := 0
		if n >= 7 {
			level = 2
		} else if n == 6 {
			level = 1
		}
		c.etagOps(s, level)
	})
	netag := 4000
	if thorough {
		netag = 150000
	}
	for i := 0; i < netag; i++ {
		var h string
		switch r.Weighted(50, 50) {
		case 0:
			h = pieces(r, etagBytes, r.Range(1, 9))
		case 1: // well-formed lists with an occasional defect
			n := r.Range(1, 4)
			var items []string
			for j := 0; j < n; j++ {
				items = append(items, common.Pick(r, `"a"`, `"b"`, `W/"a"`, `""`, `"aa"`, `*`, `"a`, `a"`, `"\x80"`, `"a b"`, `"a,a"`))
			}
			h = strings.Join(items, common.Pick(r, ",", ", ", " , ", " ", ",,", "\t,\r\n"))
		}
		t.Case(fmt.Sprintf("er%d:%s", i, esc(h)))
		c.etagOps(h, 0)
	}
	// checkPreconditions: the full product methods x etags x If-Match x If-None-Match over the pools
	for _, m := range methods {
		for _, et := range etags[:5] {
			t.Case("pc:" + esc(m) + ":" + esc(et))
			for _, im := range headerPool {
				for _, inm := range headerPool {
					t.Count("precond:" + c.do("precond %s %s %s %s", esc(m), esc(et), esc(im), esc(inm)))
				}
			}
		}
	}

	// 5. C19 agreement clause on names with a backslash (known finding P21): short strings only, at the
	// end of the trace so that these events never crowd out others.
	enum(pathAlpha, 3, func(s string, n int) {
		if strings.Contains(s, "\\") {
			t.Case("p21:" + esc(s))
			t.Count("p21:" + c.do("validgroup %s", esc(s)))
			c.do("parsegroup %% %s", esc(s))
		}
	})
}

func main() {
	e := &eng{}
	defer e.cleanup()
	common.Main(e, gen)
}
