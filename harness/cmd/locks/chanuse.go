// Use sites of unbounded.Channel (C13 (a), consumer side).
//
// Model/Unbounded.lean + Props/C13Unbounded.lean prove "no lost wakeup / exactly once / in order" for any
// number of producers calling Put and ONE consumer that alternates `<-ch.Ch` and `ch.Get()`.  The `unbounded`
// engine ties the Channel to the model; this pass ties its USERS to the discipline the proof assumes.  It lists
// every expression, outside package unbounded, whose type is (a pointer to) unbounded.Channel[T], and classifies
// the context it occurs in:
//
//	put      X.Put(v)
//	recvGet  `case <-X.Ch:` whose body begins with `v := X.Get()` (or `for ... := range X.Get()`), or the
//	         statement `<-X.Ch` immediately followed by such a statement; the pair is ONE use
//	new      unbounded.New[T]() as a field value of a composite literal, or assigned to a field / a new variable
//	other    everything else: fail closed (a receive from X.Ch not followed at once by X.Get(), a Get not preceded
//	         by the receive, a drain `select { case <-X.Ch: default: }`, len(X.Ch), X.Ch or X passed/copied/compared,
//	         a method value, access through embedding, ...)
//
// Inside package unbounded the same pass classifies every use of the field Ch (`implUses`): `new` for
// `Ch: make(chan struct{}, 1)`, `put` for a send that is the comm clause of a select with a default (the
// non-blocking signal of the model), `other` for anything else (a blocking send, a receive, a close, ...).
//
// For a recvGet the field Wait says how the loop comes back to the receive:
//
//	select      `for { select { ... case <-X.Ch: ... } }`, no default: the loop blocks only in the select
//	            (whether a case BODY can block for ever -- e.g. a write to a dead peer -- is not analysed)
//	selectmore  blocking select, but the loop body has other statements too
//	poll        the select has a default: the queue is only polled once per iteration, the loop blocks elsewhere
//	recv        a receive statement (blocking), in a loop
//	once        not inside a loop
package main

import (
	"fmt"
	"go/ast"
	"go/constant"
	"go/token"
	"go/types"
	"sort"
	"strings"
)

const unboundedPath = modulePath + "/unbounded"

type ChanUse struct {
	Pos  string // file:line
	Fn   string // enclosing function (key of the lock facts)
	Chan string // "webClient.actions" (owner type . field), "var:<name>@<decl pos>" for a local, "expr:<text>" otherwise
	Kind string // put | recvGet | new | other
	Wait string // recvGet only (see above); "-" otherwise
	What string // what was found, in words
}

func (u ChanUse) line() string {
	return fmt.Sprintf("chanuse %s %s %s %s %s %s", u.Pos, u.Fn, u.Chan, u.Kind, u.Wait, strings.ReplaceAll(u.What, " ", "_"))
}

// isChanType: unbounded.Channel[T] or a pointer to it.
func isChanType(t types.Type) bool {
	if t == nil {
		return false
	}
	if p, ok := types.Unalias(t).(*types.Pointer); ok {
		t = p.Elem()
	}
	n, ok := types.Unalias(t).(*types.Named)
	if !ok {
		return false
	}
	o := n.Origin().Obj()
	return o.Name() == "Channel" && o.Pkg() != nil && o.Pkg().Path() == unboundedPath
}

func unparen(e ast.Expr) ast.Expr {
	for {
		p, ok := e.(*ast.ParenExpr)
		if !ok {
			return e
		}
		e = p.X
	}
}

type chanScan struct {
	a           *analyser
	info        *types.Info
	uses        []ChanUse
	fn          []string          // stack of enclosing function keys
	stack       []ast.Node        // ancestors of the node being visited
	pair        map[ast.Expr]pair // channel expression of the receive of a recvGet pair
	skip        map[ast.Expr]bool // expressions accounted for by another use (the Get of a pair, the LHS of a `new`)
	inUnbounded bool              // scanning package unbounded itself (implUses)
}

type pair struct {
	get  ast.Stmt
	form string // "case" | "stmt"
}

func (s *chanScan) isChanExpr(e ast.Expr) bool {
	tv, ok := s.info.Types[e]
	return ok && tv.IsValue() && isChanType(tv.Type)
}

// unboundedObj: does the selector resolve to a field or method of package unbounded (Put, Get, Ch)?
func (s *chanScan) unboundedObj(sel *ast.SelectorExpr) bool {
	if sx := s.info.Selections[sel]; sx != nil {
		return sx.Obj().Pkg() != nil && sx.Obj().Pkg().Path() == unboundedPath
	}
	return false
}

// purePath: x, x.f, x.f.g, (x).f -- an expression that denotes the same variable when written twice in a row
func purePath(e ast.Expr) bool {
	switch e := unparen(e).(type) {
	case *ast.Ident:
		return true
	case *ast.SelectorExpr:
		return purePath(e.X)
	}
	return false
}

func rootIdent(e ast.Expr) *ast.Ident {
	switch e := unparen(e).(type) {
	case *ast.Ident:
		return e
	case *ast.SelectorExpr:
		return rootIdent(e.X)
	}
	return nil
}

func (s *chanScan) sameChan(x, y ast.Expr) bool {
	if !purePath(x) || !purePath(y) || types.ExprString(unparen(x)) != types.ExprString(unparen(y)) {
		return false
	}
	rx, ry := rootIdent(x), rootIdent(y)
	return rx != nil && ry != nil && s.info.Uses[rx] != nil && s.info.Uses[rx] == s.info.Uses[ry]
}

// recvFrom: is the statement `<-X.Ch` (value discarded)?  Returns X.
func (s *chanScan) recvFrom(st ast.Stmt) ast.Expr {
	es, ok := st.(*ast.ExprStmt)
	if !ok {
		return nil
	}
	u, ok := unparen(es.X).(*ast.UnaryExpr)
	if !ok || u.Op != token.ARROW {
		return nil
	}
	sel, ok := unparen(u.X).(*ast.SelectorExpr)
	if !ok || sel.Sel.Name != "Ch" || !s.unboundedObj(sel) || !s.isChanExpr(unparen(sel.X)) {
		return nil
	}
	return unparen(sel.X)
}

// getCall: is the expression `X.Get()`?  Returns X.
func (s *chanScan) getCall(e ast.Expr) ast.Expr {
	call, ok := unparen(e).(*ast.CallExpr)
	if !ok || len(call.Args) != 0 {
		return nil
	}
	sel, ok := unparen(call.Fun).(*ast.SelectorExpr)
	if !ok || sel.Sel.Name != "Get" || !s.unboundedObj(sel) || !s.isChanExpr(unparen(sel.X)) {
		return nil
	}
	return unparen(sel.X)
}

// getStmt: a statement that BEGINS by calling X.Get() and keeps the result:
// `v := X.Get()`, `v = X.Get()`, `var v = X.Get()`, `for ... := range X.Get() {`.  Returns X.
func (s *chanScan) getStmt(st ast.Stmt) ast.Expr {
	switch st := st.(type) {
	case *ast.AssignStmt:
		if len(st.Lhs) == 1 && len(st.Rhs) == 1 {
			if id, ok := st.Lhs[0].(*ast.Ident); ok && id.Name != "_" {
				return s.getCall(st.Rhs[0])
			}
		}
	case *ast.DeclStmt:
		if gd, ok := st.Decl.(*ast.GenDecl); ok && len(gd.Specs) == 1 {
			if vs, ok := gd.Specs[0].(*ast.ValueSpec); ok && len(vs.Names) == 1 && len(vs.Values) == 1 && vs.Names[0].Name != "_" {
				return s.getCall(vs.Values[0])
			}
		}
	case *ast.RangeStmt:
		if st.Value != nil { // `for range X.Get()` / `for i := range` would throw the values away
			return s.getCall(st.X)
		}
	}
	return nil
}

// findPairs marks the receive/Get pairs in one statement list, and in the comm clauses of selects.
func (s *chanScan) findPairs(root ast.Node) {
	list := func(stmts []ast.Stmt) {
		for i := 0; i+1 < len(stmts); i++ {
			if x := s.recvFrom(stmts[i]); x != nil {
				if y := s.getStmt(stmts[i+1]); y != nil && s.sameChan(x, y) {
					s.pair[x] = pair{stmts[i+1], "stmt"}
					s.skip[y] = true
				}
			}
		}
	}
	ast.Inspect(root, func(n ast.Node) bool {
		switch n := n.(type) {
		case *ast.AssignStmt:
			// the left-hand side of `x.f = unbounded.New[T]()` belongs to the `new` use (it is visited first)
			if len(n.Lhs) == len(n.Rhs) {
				for i, r := range n.Rhs {
					if call, ok := unparen(r).(*ast.CallExpr); ok && s.isNew(call) && purePath(n.Lhs[i]) {
						s.skip[unparen(n.Lhs[i])] = true
					}
				}
			}
		case *ast.BlockStmt:
			list(n.List)
		case *ast.CaseClause:
			list(n.Body)
		case *ast.CommClause:
			list(n.Body)
			if n.Comm != nil && len(n.Body) > 0 {
				if x := s.recvFrom(n.Comm); x != nil {
					if y := s.getStmt(n.Body[0]); y != nil && s.sameChan(x, y) {
						s.pair[x] = pair{n.Body[0], "case"}
						s.skip[y] = true
					}
				}
			}
		}
		return true
	})
}

// parent returns the i-th ancestor of the node being visited, skipping parentheses (0 = direct parent).
func (s *chanScan) parent(i int) ast.Node {
	for k := len(s.stack) - 1; k >= 0; k-- {
		if _, ok := s.stack[k].(*ast.ParenExpr); ok {
			continue
		}
		if i == 0 {
			return s.stack[k]
		}
		i--
	}
	return nil
}

func (s *chanScan) chanName(e ast.Expr) string {
	switch x := unparen(e).(type) {
	case *ast.SelectorExpr:
		if sx := s.info.Selections[x]; sx != nil && sx.Kind() == types.FieldVal {
			f := sx.Obj().(*types.Var).Origin()
			if owner, ok := s.a.fieldOwner[f]; ok {
				return owner + "." + f.Name()
			}
		}
	case *ast.Ident:
		if v, ok := s.info.Uses[x].(*types.Var); ok {
			return s.varName(v)
		}
	case *ast.CallExpr:
		return "new"
	}
	return "expr:" + strings.ReplaceAll(types.ExprString(e), " ", "")
}

// varName names a local variable (parameter, closure variable) by its declaration, so that uses in the
// declaring function and in its function literals name the same channel.
func (s *chanScan) varName(o types.Object) string {
	if o.Pkg() != nil && o.Parent() == o.Pkg().Scope() {
		return shortPkg(o.Pkg()) + "." + o.Name()
	}
	return "var:" + o.Name() + "@" + s.a.pos(o.Pos())
}

func (s *chanScan) add(e ast.Expr, ch, kind, wait, what string) {
	fn := "-"
	if len(s.fn) > 0 {
		fn = s.fn[len(s.fn)-1]
	}
	s.uses = append(s.uses, ChanUse{Pos: s.a.pos(e.Pos()), Fn: fn, Chan: ch, Kind: kind, Wait: wait, What: what})
}

// wait classifies how the loop around a recvGet comes back to the receive.
func (s *chanScan) wait(form string) (string, string) {
	// innermost enclosing select (for the case form) and loop, inside the current function
	var sel *ast.SelectStmt
	var loop ast.Node
	var loopBody *ast.BlockStmt
	for k := len(s.stack) - 1; k >= 0 && loop == nil; k-- {
		switch n := s.stack[k].(type) {
		case *ast.SelectStmt:
			if sel == nil && form == "case" {
				sel = n
			}
		case *ast.ForStmt:
			loop, loopBody = n, n.Body
		case *ast.RangeStmt:
			loop, loopBody = n, n.Body
		case *ast.FuncLit, *ast.FuncDecl:
			k = -1
		}
	}
	if loop == nil {
		return "once", "not inside a loop"
	}
	at := s.a.pos(loop.Pos())
	if form == "stmt" {
		return "recv", "blocking receive in the loop at " + at
	}
	hasDefault := false
	for _, c := range sel.Body.List {
		if c.(*ast.CommClause).Comm == nil {
			hasDefault = true
		}
	}
	var rest []ast.Stmt
	for _, st := range loopBody.List {
		x := st
		if l, ok := x.(*ast.LabeledStmt); ok {
			x = l.Stmt
		}
		if x != ast.Stmt(sel) {
			rest = append(rest, st)
		}
	}
	next := ""
	if len(rest) > 0 {
		next = "; the loop also executes " + firstLine(s.a, rest[0])
	}
	fs, infinite := loop.(*ast.ForStmt)
	infinite = infinite && fs.Cond == nil && fs.Init == nil && fs.Post == nil
	switch {
	case hasDefault:
		return "poll", "polled (select with default) once per iteration of the loop at " + at + next
	case len(rest) == 0 && len(loopBody.List) == 1 && infinite:
		return "select", fmt.Sprintf("one of %d cases of the blocking select that is the whole body of the loop at %s", len(sel.Body.List), at)
	default:
		return "selectmore", "blocking select in the loop at " + at + next
	}
}

func firstLine(a *analyser, st ast.Stmt) string {
	var txt string
	switch st := st.(type) {
	case *ast.AssignStmt:
		if len(st.Rhs) == 1 {
			txt = types.ExprString(st.Rhs[0])
		}
	case *ast.ExprStmt:
		txt = types.ExprString(st.X)
	}
	if txt == "" {
		switch st.(type) {
		case *ast.ForStmt, *ast.RangeStmt:
			txt = "for ..."
		case *ast.IfStmt:
			txt = "if ..."
		case *ast.SelectStmt:
			txt = "select ..."
		case *ast.SwitchStmt, *ast.TypeSwitchStmt:
			txt = "switch ..."
		case *ast.GoStmt:
			txt = "go ..."
		case *ast.DeferStmt:
			txt = "defer ..."
		case *ast.ReturnStmt:
			txt = "return ..."
		default:
			txt = strings.TrimPrefix(fmt.Sprintf("%T", st), "*ast.")
		}
	}
	return fmt.Sprintf("`%s` (%s)", txt, a.pos(st.Pos()))
}

// classify one expression of channel type by the context it occurs in.
func (s *chanScan) classify(e ast.Expr) {
	if s.skip[e] {
		return
	}
	name := s.chanName(e)
	txt := types.ExprString(e)
	if p, ok := s.pair[e]; ok {
		w, how := s.wait(p.form)
		s.add(e, name, "recvGet", w, fmt.Sprintf("receive from %s.Ch, then at once %s.Get() (%s); %s", txt, txt, s.a.pos(p.get.Pos()), how))
		return
	}
	other := func(format string, args ...any) { s.add(e, name, "other", "-", fmt.Sprintf(format, args...)) }
	p0, p1 := s.parent(0), s.parent(1)
	// the result of unbounded.New
	if call, ok := e.(*ast.CallExpr); ok && s.isNew(call) {
		switch p := p0.(type) {
		case *ast.KeyValueExpr:
			if _, ok := p1.(*ast.CompositeLit); ok && unparen(p.Value) == e {
				s.add(e, s.keyName(p, p1.(*ast.CompositeLit)), "new", "-", "field initialised with unbounded.New in a composite literal")
				return
			}
		case *ast.AssignStmt:
			if len(p.Lhs) == len(p.Rhs) {
				for i, r := range p.Rhs {
					if unparen(r) == e {
						lhs := unparen(p.Lhs[i])
						if _, isId := lhs.(*ast.Ident); (isId && p.Tok == token.DEFINE) || (purePath(lhs) && s.isChanExpr(lhs)) {
							s.skip[lhs] = true
							lname := name
							if s.isChanExpr(lhs) {
								lname = s.chanName(lhs)
							} else if id, ok := lhs.(*ast.Ident); ok && s.info.Defs[id] != nil {
								lname = s.varName(s.info.Defs[id])
							}
							s.add(e, lname, "new", "-", fmt.Sprintf("%s %s unbounded.New", types.ExprString(lhs), p.Tok))
							return
						}
					}
				}
			}
		case *ast.ValueSpec:
			if len(p.Names) == len(p.Values) {
				for i, r := range p.Values {
					if unparen(r) == e {
						vn := "var:" + p.Names[i].Name
						if o := s.info.Defs[p.Names[i]]; o != nil {
							vn = s.varName(o)
						}
						s.add(e, vn, "new", "-", "var "+p.Names[i].Name+" = unbounded.New")
						return
					}
				}
			}
		}
		other("the result of unbounded.New is used directly (%T)", p0)
		return
	}
	if sel, ok := p0.(*ast.SelectorExpr); ok && unparen(sel.X) == e {
		call, called := p1.(*ast.CallExpr)
		called = called && unparen(call.Fun) == ast.Expr(sel)
		switch {
		case !s.unboundedObj(sel):
			other("selector %s.%s that does not resolve to package unbounded", txt, sel.Sel.Name)
		case sel.Sel.Name == "Put" && called:
			s.add(e, name, "put", "-", "call of Put")
		case sel.Sel.Name == "Get" && called:
			other("%s.Get() that is not the first statement after a receive from %s.Ch (a Get without its wakeup: the trigger stays behind, or the queue is emptied under another consumer)", txt, txt)
		case sel.Sel.Name == "Put" || sel.Sel.Name == "Get":
			other("method value %s.%s", txt, sel.Sel.Name)
		case sel.Sel.Name == "Ch":
			if u, ok := p1.(*ast.UnaryExpr); ok && u.Op == token.ARROW {
				s.otherRecv(e, name, txt)
				return
			}
			if c, ok := p1.(*ast.CallExpr); ok {
				if id, ok := unparen(c.Fun).(*ast.Ident); ok && (id.Name == "len" || id.Name == "cap" || id.Name == "close") {
					other("%s(%s.Ch)", id.Name, txt)
					return
				}
			}
			if snd, ok := p1.(*ast.SendStmt); ok && unparen(snd.Chan) == ast.Expr(sel) {
				other("send on %s.Ch outside package unbounded", txt)
				return
			}
			other("the trigger channel %s.Ch is used as a value (%s): it can be received from elsewhere", txt, strings.TrimPrefix(fmt.Sprintf("%T", p1), "*ast."))
		default:
			other("field %s.%s", txt, sel.Sel.Name)
		}
		return
	}
	switch p := p0.(type) {
	case *ast.AssignStmt:
		for _, l := range p.Lhs {
			if unparen(l) == e {
				other("%s is assigned something other than unbounded.New", txt)
				return
			}
		}
		other("the channel %s is copied into another variable or field", txt)
	case *ast.CallExpr:
		other("the channel %s is passed to %s", txt, types.ExprString(p.Fun))
	case *ast.BinaryExpr:
		other("the channel %s is compared (%s)", txt, p.Op)
	case *ast.StarExpr, *ast.UnaryExpr:
		other("the channel %s is dereferenced or has its address taken", txt)
	case *ast.ReturnStmt:
		other("the channel %s is returned", txt)
	case *ast.KeyValueExpr, *ast.CompositeLit:
		other("the channel %s is stored in a composite literal", txt)
	default:
		other("the channel %s occurs in a context the extractor does not recognise (%T)", txt, p0)
	}
}

func (s *chanScan) keyName(kv *ast.KeyValueExpr, lit *ast.CompositeLit) string {
	if id, ok := kv.Key.(*ast.Ident); ok {
		if tv, ok := s.info.Types[lit]; ok {
			if n := derefNamed(tv.Type); n != nil {
				return s.a.typeLabel(n) + "." + id.Name
			}
		}
		return "field:" + id.Name
	}
	return "new"
}

func (s *chanScan) isNew(call *ast.CallExpr) bool {
	fun := unparen(call.Fun)
	for {
		switch f := fun.(type) {
		case *ast.IndexExpr:
			fun = unparen(f.X)
			continue
		case *ast.IndexListExpr:
			fun = unparen(f.X)
			continue
		}
		break
	}
	var id *ast.Ident
	switch f := fun.(type) {
	case *ast.SelectorExpr:
		id = f.Sel
	case *ast.Ident:
		id = f
	}
	if id == nil {
		return false
	}
	o, ok := s.info.Uses[id].(*types.Func)
	return ok && o.Name() == "New" && o.Pkg() != nil && o.Pkg().Path() == unboundedPath
}

// otherRecv describes a receive from X.Ch that is not the receive of a recvGet pair.
func (s *chanScan) otherRecv(e ast.Expr, name, txt string) {
	what := fmt.Sprintf("receive from %s.Ch that is not followed at once by `v := %s.Get()`", txt, txt)
	// is it the comm clause of a select?  ancestors: expressions, then the comm statement, then the clause
	k := len(s.stack) - 1
	for k >= 0 {
		if _, isExpr := s.stack[k].(ast.Expr); !isExpr {
			break
		}
		k--
	}
	if k >= 3 {
		if st, ok := s.stack[k].(ast.Stmt); ok {
			if cc, ok := s.stack[k-1].(*ast.CommClause); ok && cc.Comm == st {
				hasDefault := false
				if sel, ok := s.stack[k-3].(*ast.SelectStmt); ok {
					for _, c := range sel.Body.List {
						if c.(*ast.CommClause).Comm == nil {
							hasDefault = true
						}
					}
				}
				switch {
				case len(cc.Body) == 0 && hasDefault:
					what = fmt.Sprintf("non-blocking receive `select { case <-%s.Ch: default: }` that throws the trigger away (a Put that completes just before it is never announced again)", txt)
				case len(cc.Body) == 0:
					what = fmt.Sprintf("`case <-%s.Ch:` with an empty body: the trigger is consumed and the queue is not read", txt)
				default:
					what = fmt.Sprintf("`case <-%s.Ch:` whose body begins with %s instead of `v := %s.Get()`", txt, firstLine(s.a, cc.Body[0]), txt)
				}
			}
		}
	}
	s.add(e, name, "other", "-", what)
}

// walk visits every node keeping the ancestor stack.
func (s *chanScan) walk(n ast.Node) {
	ast.Inspect(n, func(m ast.Node) bool {
		if m == nil {
			top := s.stack[len(s.stack)-1]
			s.stack = s.stack[:len(s.stack)-1]
			switch top.(type) {
			case *ast.FuncDecl, *ast.FuncLit:
				s.fn = s.fn[:len(s.fn)-1]
			}
			return true
		}
		switch f := m.(type) {
		case *ast.FuncDecl:
			key := "-"
			if obj, _ := s.info.Defs[f.Name].(*types.Func); obj != nil {
				key = s.a.funcKey(obj)
			}
			s.fn = append(s.fn, key)
		case *ast.FuncLit:
			key := s.a.litKeys[f]
			if key == "" {
				key = "literal@" + s.a.pos(f.Pos())
			}
			s.fn = append(s.fn, key)
		}
		if e, ok := m.(ast.Expr); ok {
			if _, paren := e.(*ast.ParenExpr); !paren {
				if s.inUnbounded {
					s.classifyImpl(e)
				} else {
					if s.isChanExpr(e) {
						s.classify(e)
					} else if sel, ok := e.(*ast.SelectorExpr); ok && s.unboundedObj(sel) && !s.isChanExpr(unparen(sel.X)) {
						s.add(e, "expr:"+strings.ReplaceAll(types.ExprString(sel.X), " ", ""), "other", "-",
							fmt.Sprintf("%s reaches unbounded.Channel.%s through an embedded field", types.ExprString(sel), sel.Sel.Name))
					}
				}
			}
		}
		s.stack = append(s.stack, m)
		return true
	})
}

// classifyImpl: inside package unbounded, every use of the field Ch.
func (s *chanScan) classifyImpl(e ast.Expr) {
	// `Ch: make(chan struct{}, 1)` in a composite literal of Channel
	if kv, ok := e.(*ast.KeyValueExpr); ok {
		if id, ok := kv.Key.(*ast.Ident); ok && id.Name == "Ch" {
			if lit, ok := s.parent(0).(*ast.CompositeLit); ok && isChanType(s.info.Types[lit].Type) {
				if c, ok := unparen(kv.Value).(*ast.CallExpr); ok && len(c.Args) == 2 {
					if f, ok := c.Fun.(*ast.Ident); ok && f.Name == "make" {
						if tv := s.info.Types[c.Args[1]]; tv.Value != nil && constant.Compare(tv.Value, token.EQL, constant.MakeInt64(1)) {
							s.add(e, "Channel.Ch", "new", "-", "Ch: make(chan, 1)")
							return
						}
					}
				}
				s.add(e, "Channel.Ch", "other", "-", "Ch is not initialised with make(chan struct{}, 1): "+types.ExprString(kv.Value))
			}
		}
		return
	}
	sel, ok := e.(*ast.SelectorExpr)
	if !ok || sel.Sel.Name != "Ch" {
		return
	}
	sx := s.info.Selections[sel]
	if sx == nil || sx.Kind() != types.FieldVal || !isChanType(sx.Recv()) {
		return
	}
	txt := types.ExprString(sel)
	if snd, ok := s.parent(0).(*ast.SendStmt); ok && unparen(snd.Chan) == ast.Expr(sel) {
		if cc, ok := s.parent(1).(*ast.CommClause); ok && cc.Comm == ast.Stmt(snd) {
			if st, ok := s.parent(3).(*ast.SelectStmt); ok && len(st.Body.List) == 2 {
				for _, c := range st.Body.List {
					if d := c.(*ast.CommClause); d.Comm == nil && len(d.Body) == 0 {
						s.add(e, "Channel.Ch", "put", "-", "non-blocking send `select { case "+txt+" <- ...: default: }`")
						return
					}
				}
			}
		}
		s.add(e, "Channel.Ch", "other", "-", "send on "+txt+" that is not `select { case "+txt+" <- struct{}{}: default: }`: the model's Put never blocks on its signal")
		return
	}
	s.add(e, "Channel.Ch", "other", "-", fmt.Sprintf("%s is used inside package unbounded other than for the non-blocking signal of Put (%T)", txt, s.parent(0)))
}

// chanUses runs the pass over every galene package.
func chanUses(a *analyser) (uses, impl []ChanUse) {
	var paths []string
	for p := range a.l.infos {
		paths = append(paths, p)
	}
	sort.Strings(paths)
	for _, p := range paths {
		s := &chanScan{a: a, info: a.l.infos[p], pair: map[ast.Expr]pair{}, skip: map[ast.Expr]bool{}, inUnbounded: p == unboundedPath}
		for _, file := range a.l.files[p] {
			if !s.inUnbounded {
				s.findPairs(file)
			}
			s.fn = []string{"-"}
			s.walk(file)
		}
		if s.inUnbounded {
			impl = append(impl, s.uses...)
		} else {
			uses = append(uses, s.uses...)
		}
	}
	return
}

// consumersOf lists the recvGet sites and the Put sites (`pos@fn`) of one channel.
func consumersOf(uses []ChanUse, ch string) (recvs, puts []string) {
	for _, u := range uses {
		if u.Chan == ch {
			switch u.Kind {
			case "recvGet":
				recvs = append(recvs, u.Pos+"@"+u.Fn)
			case "put":
				puts = append(puts, u.Pos+"@"+u.Fn)
			}
		}
	}
	return
}
