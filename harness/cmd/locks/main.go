// Engine `locks` and fact generator for C13 (b)/(c) (and the mutex fact C05 relies on).
//
//	locks gen                 print the facts as a line-protocol trace (the runner feeds it to the Lean driver)
//	locks replay <ops-file>   re-check fact lines against a fresh analysis of $VERIF_REPO
//	locks emit <lean-dir>     regenerate <lean-dir>/GaleneVerif/Generated/{Locks,Accesses}.lean (+ .build/facts.json)
//
// Trace: case `lockorder` lists every lock-order edge (`edge from to via => 1`) and ends with `cycles`, whose
// result is the extractor's own list of cyclic strongly connected components; the Lean engine recomputes it
// from the edges.  One case per (entry point, lock) whose guarded accesses are not all covered
// (`access fn field r|w guard held`, `call caller callee held`, then `guardcheck root lock => fields via fns`).
// Case `unknowns` lists what the extractor could not analyse (fail closed), case `cachemethods` the
// Lock + defer Unlock shape of packetcache.Cache's exported methods, case `summary` the sizes.
// Case `chanuse` lists the use sites of unbounded.Channel that follow the discipline of the no-lost-wakeup
// proof (`chanuse pos fn chan kind wait what`, chanuse.go); one case per channel holds
// `chanconsumers chan recvGet-sites put-sites => n m`; case `chanimpl` the uses of Channel.Ch inside package
// unbounded; every use classified `other` gets a case of its own so that each is reported with its witness.
package main

import (
	"encoding/json"
	"fmt"
	"os"
	"path/filepath"
	"sort"
	"strings"

	"github.com/jech/galene/zzverif/common"
)

func repoDir() string {
	if r := os.Getenv("VERIF_REPO"); r != "" {
		return r
	}
	return "/repo"
}

type eng struct {
	facts *Facts
	edges map[string]bool
	acc   map[string]bool
	chanLines map[string]bool
	// replay state: the edges / facts accepted so far in this case
	caseEdges [][2]string
	caseFacts []string
}

func (e *eng) ensure() {
	if e.facts != nil {
		return
	}
	f, err := analyse(repoDir())
	if err != nil {
		fmt.Fprintln(os.Stderr, "analysis failed:", err)
		os.Exit(3)
	}
	e.facts = f
	e.edges = map[string]bool{}
	for _, ed := range f.Edges {
		e.edges[ed.From+" "+ed.To] = true
	}
	e.chanLines = map[string]bool{}
	for _, u := range f.ChanUses {
		e.chanLines[u.line()] = true
	}
	for _, u := range f.ChanImpl {
		e.chanLines["chanimpl"+strings.TrimPrefix(u.line(), "chanuse")] = true
	}
	e.acc = map[string]bool{}
	for _, k := range f.Order {
		fn := f.Fns[k]
		for _, a := range fn.Accesses {
			e.acc[accessLine(k, a)] = true
		}
		for _, c := range fn.Calls {
			for _, callee := range c.Callees {
				e.acc[callLine(k, callee, c)] = true
			}
		}
	}
}

func (e *eng) Reset() { e.caseEdges = nil; e.caseFacts = nil }

// Exec answers whether a fact line still holds of the current tree (1/0) and recomputes the verdict ops
// from the facts accepted so far in the case.
func (e *eng) Exec(op []string) string {
	e.ensure()
	switch op[0] {
	case "edge":
		if e.edges[op[1]+" "+op[2]] {
			e.caseEdges = append(e.caseEdges, [2]string{op[1], op[2]})
			return "1"
		}
		return "0"
	case "cycles":
		return sccString(e.caseEdges)
	case "access", "call":
		line := strings.Join(op, " ")
		if e.acc[line] {
			e.caseFacts = append(e.caseFacts, line)
			return "1"
		}
		return "0"
	case "guardcheck":
		fields, via := reach(e.caseFacts, op[1], op[2])
		return listTok(fields) + " via " + listTok(via)
	case "unknown":
		want := strings.Join(op[1:], " ")
		for _, u := range e.facts.Unknowns {
			if strings.ReplaceAll(u, " ", "_") == want {
				return "1"
			}
		}
		return "0"
	case "cachemethod":
		for _, m := range e.facts.CacheM {
			if m.Name == op[1] {
				return common.B2s(m.Locked)
			}
		}
		return "absent"
	case "chanuse", "chanimpl":
		line := strings.Join(op, " ")
		if e.chanLines[line] {
			e.caseFacts = append(e.caseFacts, line)
			return "1"
		}
		return "0"
	case "chanconsumers":
		recvs, puts := consumersOf(e.facts.ChanUses, op[1])
		if listTok(recvs) != op[2] || listTok(puts) != op[3] {
			return "stale" // not the consumer/producer sites of the current tree
		}
		return fmt.Sprintf("%d %d", len(recvs), len(puts))
	case "count":
		return fmt.Sprint(e.count(op[1]))
	}
	panic("unknown op " + op[0])
}

func (e *eng) count(what string) int {
	f := e.facts
	n := 0
	switch what {
	case "functions":
		return len(f.Order)
	case "edges":
		return len(f.Edges)
	case "acquires":
		for _, k := range f.Order {
			n += len(f.Fns[k].Acquires)
		}
	case "accesses":
		for _, k := range f.Order {
			n += len(f.Fns[k].Accesses)
		}
	case "calls":
		for _, k := range f.Order {
			n += len(f.Fns[k].Calls)
		}
	case "roots":
		for _, k := range f.Order {
			if f.Fns[k].Root != "" {
				n++
			}
		}
	case "violations":
		return len(f.Viol)
	case "unknowns":
		return len(f.Unknowns)
	case "loaderrors":
		return len(f.LoadErrs)
	case "chanuses":
		return len(f.ChanUses) + len(f.ChanImpl)
	case "chanothers":
		for _, u := range append(append([]ChanUse{}, f.ChanUses...), f.ChanImpl...) {
			if u.Kind == "other" {
				n++
			}
		}
	}
	return n
}

// reach re-derives, from access/call fact lines alone, the guarded fields that `root` reaches without `lock`.
func reach(lines []string, root, lock string) (fields, via []string) {
	type acc struct {
		field string
		held  []string
	}
	type cl struct {
		callee string
		held   []string
	}
	accs := map[string][]acc{}
	calls := map[string][]cl{}
	for _, l := range lines {
		f := strings.Fields(l)
		held := []string{}
		if f[len(f)-1] != "-" {
			held = strings.Split(f[len(f)-1], ",")
		}
		switch f[0] {
		case "access":
			if f[4] == lock {
				accs[f[1]] = append(accs[f[1]], acc{f[2], held})
			}
		case "call":
			calls[f[1]] = append(calls[f[1]], cl{f[2], held})
		}
	}
	fs, vs := map[string]bool{}, map[string]bool{}
	seen := map[string]bool{}
	var visit func(f string)
	visit = func(f string) {
		if seen[f] {
			return
		}
		seen[f] = true
		for _, a := range accs[f] {
			if !contains(a.held, lock) {
				fs[a.field] = true
				if f != root {
					vs[f] = true
				}
			}
		}
		for _, c := range calls[f] {
			if !contains(c.held, lock) {
				visit(c.callee)
			}
		}
	}
	visit(root)
	return keys(fs), keys(vs)
}

// sccString: the strongly connected components that contain a cycle, canonical:
// "none" or "[a,b];[c]" (nodes sorted inside a component, components sorted).
func sccString(edges [][2]string) string {
	adj := map[string][]string{}
	nodes := map[string]bool{}
	for _, e := range edges {
		adj[e[0]] = append(adj[e[0]], e[1])
		nodes[e[0]], nodes[e[1]] = true, true
	}
	reachable := func(from string) map[string]bool {
		r := map[string]bool{}
		stack := append([]string(nil), adj[from]...)
		for len(stack) > 0 {
			n := stack[len(stack)-1]
			stack = stack[:len(stack)-1]
			if r[n] {
				continue
			}
			r[n] = true
			stack = append(stack, adj[n]...)
		}
		return r
	}
	reach := map[string]map[string]bool{}
	for n := range nodes {
		reach[n] = reachable(n)
	}
	done := map[string]bool{}
	var comps []string
	for _, n := range keys(nodes) {
		if done[n] || !reach[n][n] {
			continue
		}
		var comp []string
		for _, m := range keys(nodes) {
			if reach[n][m] && reach[m][n] {
				comp = append(comp, m)
				done[m] = true
			}
		}
		comps = append(comps, "["+strings.Join(comp, ",")+"]")
	}
	if len(comps) == 0 {
		return "none"
	}
	sort.Strings(comps)
	return strings.Join(comps, ";")
}

func gen(t *common.Trace, ee common.Engine, r *common.Rng, thorough bool) {
	e := ee.(*eng)
	e.ensure()
	f := e.facts
	do := func(s string) string { return common.Do(t, e, s) }
	t.Case("lockorder")
	e.Reset()
	for _, ed := range f.Edges {
		do(fmt.Sprintf("edge %s %s %s", ed.From, ed.To, strings.ReplaceAll(ed.Via, " ", "_")))
	}
	do("cycles")
	for _, v := range f.Viol {
		t.Case(fmt.Sprintf("guard:%s:%s", v.Root, v.Lock))
		e.Reset()
		for _, l := range v.Facts {
			do(l)
		}
		do(fmt.Sprintf("guardcheck %s %s", v.Root, v.Lock))
	}
	t.Case("unknowns")
	e.Reset()
	for _, u := range f.Unknowns {
		do("unknown " + strings.ReplaceAll(u, " ", "_"))
	}
	t.Case("cachemethods")
	e.Reset()
	for _, m := range f.CacheM {
		do("cachemethod " + m.Name)
	}
	// use sites of unbounded.Channel: the disciplined ones in one case, closed by the consumer count per channel
	t.Case("chanuse")
	e.Reset()
	var chans []string
	for _, u := range f.ChanUses {
		if u.Kind != "other" {
			do(u.line())
			chans = appendUniq(chans, u.Chan)
		}
	}
	sort.Strings(chans)
	for _, c := range chans {
		t.Case("chanconsumers:" + c)
		e.Reset()
		recvs, puts := consumersOf(f.ChanUses, c)
		do(fmt.Sprintf("chanconsumers %s %s %s", c, listTok(recvs), listTok(puts)))
	}
	t.Case("chanimpl")
	e.Reset()
	for _, u := range f.ChanImpl {
		if u.Kind != "other" {
			do("chanimpl" + strings.TrimPrefix(u.line(), "chanuse"))
		}
	}
	// ... and every use that leaves the discipline in a case of its own
	for i, u := range f.ChanUses {
		if u.Kind == "other" {
			t.Case(fmt.Sprintf("chanuse:%s:%d", u.Pos, i))
			e.Reset()
			do(u.line())
		}
	}
	for i, u := range f.ChanImpl {
		if u.Kind == "other" {
			t.Case(fmt.Sprintf("chanimpl:%s:%d", u.Pos, i))
			e.Reset()
			do("chanimpl" + strings.TrimPrefix(u.line(), "chanuse"))
		}
	}
	t.Case("summary")
	e.Reset()
	for _, w := range []string{"functions", "acquires", "calls", "accesses", "edges", "roots", "violations", "unknowns", "loaderrors", "chanuses", "chanothers"} {
		do("count " + w)
		t.Hist[w] = e.count(w) + 1 // (+1: Do counted the op once already under another key; this is the value)
		t.Hist[w]--
	}
}

func main() {
	if len(os.Args) >= 3 && os.Args[1] == "emit" {
		emit(os.Args[2])
		return
	}
	if len(os.Args) >= 2 && os.Args[1] == "dump" {
		f, err := analyse(repoDir())
		if err != nil {
			fmt.Fprintln(os.Stderr, err)
			os.Exit(3)
		}
		dump(f, os.Stdout)
		return
	}
	common.Main(&eng{}, gen)
}

// ---------------------------------------------------------------------------
// Lean output

func leanStr(s string) string { return "\"" + strings.ReplaceAll(strings.ReplaceAll(s, "\\", "\\\\"), "\"", "\\\"") + "\"" }

func leanNatList(xs []int) string {
	ss := make([]string, len(xs))
	for i, x := range xs {
		ss[i] = fmt.Sprint(x)
	}
	return "[" + strings.Join(ss, ", ") + "]"
}

type interner struct {
	ids   map[string]int
	names []string
}

func (in *interner) id(s string) int {
	if in.ids == nil {
		in.ids = map[string]int{}
	}
	if i, ok := in.ids[s]; ok {
		return i
	}
	in.ids[s] = len(in.names)
	in.names = append(in.names, s)
	return len(in.names) - 1
}

func (in *interner) list(xs []string) []int {
	r := make([]int, len(xs))
	for i, x := range xs {
		r[i] = in.id(x)
	}
	return r
}

func leanStrList(xs []string, indent string) string {
	if len(xs) == 0 {
		return "[]"
	}
	ss := make([]string, len(xs))
	for i, x := range xs {
		ss[i] = leanStr(x)
	}
	return "[\n" + indent + strings.Join(ss, ",\n"+indent) + "]"
}

func emit(leanDir string) {
	f, err := analyse(repoDir())
	if err != nil {
		fmt.Fprintln(os.Stderr, "analysis failed:", err)
		os.Exit(3)
	}
	dir := filepath.Join(leanDir, "GaleneVerif", "Generated")
	os.MkdirAll(dir, 0755)
	var locks, fns, fields interner
	// ---- Locks.lean
	var sb strings.Builder
	sb.WriteString("/- GENERATED by harness/cmd/locks (extract/run.sh) from the source of $VERIF_REPO on every run; do not edit. -/\n")
	sb.WriteString("namespace Galene.Generated\n\n")
	var edgeLines []string
	var edgeDoc []string
	var ce [][2]string
	for _, e := range f.Edges {
		edgeLines = append(edgeLines, fmt.Sprintf("(%d, %d)", locks.id(e.From), locks.id(e.To)))
		edgeDoc = append(edgeDoc, fmt.Sprintf("  %s -> %s   (%s)", e.From, e.To, e.Via))
		ce = append(ce, [2]string{e.From, e.To})
	}
	// every lock that is acquired anywhere gets an id, even without edges
	for _, k := range f.Order {
		for _, a := range f.Fns[k].Acquires {
			locks.id(a.Lock)
		}
	}
	scc := sccString(ce)
	sb.WriteString("/-- mutexes, named at type level; the index is the id used below -/\n")
	sb.WriteString("def lockNames : List String := " + leanStrList(locks.names, "  ") + "\n\n")
	sb.WriteString("/-- lock-order edges (held, acquired), closed over calls; interface calls resolved to every implementation\n")
	sb.WriteString(strings.Join(edgeDoc, "\n") + "\n-/\n")
	sb.WriteString("def lockEdges : List (Nat × Nat) := [" + strings.Join(edgeLines, ", ") + "]\n\n")
	sb.WriteString("/-- the extractor's own verdict: strongly connected components of `lockEdges` that contain a cycle -/\n")
	sb.WriteString("def lockCycles : String := " + leanStr(scc) + "\n\n")
	sb.WriteString("/-- the extractor's own verdict on acyclicity; Props/C13Locks.lean re-decides it -/\n")
	sb.WriteString(fmt.Sprintf("def lockEdgesAcyclic : Bool := %v\n\n", scc == "none"))
	sb.WriteString("/-- what the extractor could not analyse in the fact packages (must be empty: fail closed) -/\n")
	sb.WriteString("def lockUnknowns : List String := " + leanStrList(f.Unknowns, "  ") + "\n\n")
	var cm []string
	for _, m := range f.CacheM {
		cm = append(cm, fmt.Sprintf("(%s, %v)", leanStr(m.Name), m.Locked))
	}
	sb.WriteString("/-- exported methods of packetcache.Cache: is the body `cache.mu.Lock(); defer cache.mu.Unlock(); ...`\nwith no other operation on cache.mu?  (C05 relies on this) -/\n")
	sb.WriteString("def cacheMethodsLocked : List (String × Bool) := [" + strings.Join(cm, ", ") + "]\n\n")
	sb.WriteString("end Galene.Generated\n")
	must(writeIfChanged(filepath.Join(dir, "Locks.lean"), []byte(sb.String())))

	// ---- Accesses.lean
	sb.Reset()
	sb.WriteString("/- GENERATED by harness/cmd/locks (extract/run.sh) from the source of $VERIF_REPO on every run; do not edit. -/\n")
	sb.WriteString("namespace Galene.Generated\n\n")
	// lock ids must agree with Locks.lean: reuse the interner, and emit the table again for self-containedness
	var accLines, callLines, certLines, rootLines []string
	for _, k := range f.Order {
		fn := f.Fns[k]
		for _, a := range fn.Accesses {
			accLines = append(accLines, fmt.Sprintf("(%d, %d, %v, %d, %s)", fns.id(k), fields.id(a.Field), a.Write,
				locks.id(a.Guard), leanNatList(locks.list(a.HeldMust))))
		}
	}
	for _, k := range f.Order {
		fn := f.Fns[k]
		for _, c := range fn.Calls {
			if c.Go {
				continue
			}
			for _, callee := range c.Callees {
				if len(f.Needs[callee]) == 0 {
					continue
				}
				callLines = append(callLines, fmt.Sprintf("(%d, %d, %s)", fns.id(k), fns.id(callee), leanNatList(locks.list(c.HeldMust))))
			}
		}
	}
	for _, k := range f.Order {
		if len(f.Needs[k]) > 0 {
			certLines = append(certLines, fmt.Sprintf("(%d, %s)", fns.id(k), leanNatList(locks.list(keys(f.Needs[k])))))
		}
	}
	for _, k := range f.Order {
		if f.Fns[k].Root != "" {
			// only roots that appear in the tables matter to the check; the others trivially need nothing
			if _, ok := fns.ids[k]; ok {
				rootLines = append(rootLines, fmt.Sprint(fns.id(k)))
			}
		}
	}
	sb.WriteString("def accLockNames : List String := " + leanStrList(locks.names, "  ") + "\n\n")
	sb.WriteString("def fnNames : List String := " + leanStrList(fns.names, "  ") + "\n\n")
	sb.WriteString("def fieldNames : List String := " + leanStrList(fields.names, "  ") + "\n\n")
	sb.WriteString("/-- every read/write of a guarded field: (function, field, write, guard lock, locks that MUST be held, lexically) -/\n")
	sb.WriteString("def accesses : List (Nat × Nat × Bool × Nat × List Nat) := [\n  " + strings.Join(accLines, ",\n  ") + "]\n\n")
	sb.WriteString("/-- calls (caller, callee, locks that must be held at the call) to functions that need a lock from their caller -/\n")
	sb.WriteString("def lockedCalls : List (Nat × Nat × List Nat) := [\n  " + strings.Join(callLines, ",\n  ") + "]\n\n")
	sb.WriteString("/-- certificate: the locks each function needs its caller to hold (functions not listed need none) -/\n")
	sb.WriteString("def needsCert : List (Nat × List Nat) := [\n  " + strings.Join(certLines, ",\n  ") + "]\n\n")
	sb.WriteString("/-- entry points (exported, goroutine roots, callbacks, interface implementations, no caller) among the functions above -/\n")
	sb.WriteString("def entryPoints : List Nat := [" + strings.Join(rootLines, ", ") + "]\n\n")
	var vdoc []string
	for _, v := range f.Viol {
		vdoc = append(vdoc, fmt.Sprintf("  %s reaches %s without %s via %s", v.Root, listTok(v.Fields), v.Lock, listTok(v.Via)))
	}
	sb.WriteString("/-- the extractor's own verdict: is every guarded access covered?  Violations found:\n" + strings.Join(vdoc, "\n") + "\n-/\n")
	sb.WriteString(fmt.Sprintf("def allGuardedClaim : Bool := %v\n\n", len(f.Viol) == 0))
	sb.WriteString("end Galene.Generated\n")
	must(writeIfChanged(filepath.Join(dir, "Accesses.lean"), []byte(sb.String())))

	// ---- ChanUse.lean
	sb.Reset()
	sb.WriteString("import GaleneVerif.Model.ChanUse\n")
	sb.WriteString("/- GENERATED by harness/cmd/locks (extract/run.sh) from the source of $VERIF_REPO on every run; do not edit. -/\n")
	sb.WriteString("namespace Galene.Generated\nopen Galene.ChanUse\n\n")
	useList := func(us []ChanUse) string {
		var ls []string
		for _, u := range us {
			ls = append(ls, fmt.Sprintf("{ pos := %s, fn := %s, chan := %s, kind := .%s, wait := %s,\n    what := %s }",
				leanStr(u.Pos), leanStr(u.Fn), leanStr(u.Chan), u.Kind, leanStr(u.Wait), leanStr(u.What)))
		}
		if len(ls) == 0 {
			return "[]"
		}
		return "[\n  " + strings.Join(ls, ",\n  ") + "]"
	}
	sb.WriteString("/-- EVERY expression outside package unbounded whose type is (a pointer to) unbounded.Channel[T], classified by\nthe context it occurs in (harness/cmd/locks/chanuse.go); whatever is not positively recognised is `other` -/\n")
	sb.WriteString("def chanUses : List Use := " + useList(f.ChanUses) + "\n\n")
	sb.WriteString("/-- every use of the field Channel.Ch inside package unbounded: `new` = `Ch: make(chan struct{}, 1)`,\n`put` = the non-blocking send `select { case ch.Ch <- struct{}{}: default: }`, `other` = anything else -/\n")
	sb.WriteString("def chanImplUses : List Use := " + useList(f.ChanImpl) + "\n\n")
	sb.WriteString("end Galene.Generated\n")
	must(writeIfChanged(filepath.Join(dir, "ChanUse.lean"), []byte(sb.String())))

	// ---- facts.json for the evidence
	if root := os.Getenv("VERIF_ROOT"); root != "" {
		os.MkdirAll(filepath.Join(root, ".build"), 0755)
		out, _ := os.Create(filepath.Join(root, ".build", "facts.json"))
		if out != nil {
			dumpJSON(f, out)
			out.Close()
		}
	}
	fmt.Printf("extracted: %d functions, %d edges, cycles %s, %d guard violations, %d unknowns, %d type errors, %d+%d channel uses\n",
		len(f.Order), len(f.Edges), scc, len(f.Viol), len(f.Unknowns), len(f.LoadErrs), len(f.ChanUses), len(f.ChanImpl))
}

// writeIfChanged rewrites a generated file only when its content changes.
func writeIfChanged(path string, content []byte) error {
	if old, err := os.ReadFile(path); err == nil && string(old) == string(content) {
		return nil
	}
	return os.WriteFile(path, content, 0644)
}

func must(err error) {
	if err != nil {
		fmt.Fprintln(os.Stderr, err)
		os.Exit(3)
	}
}

func dumpJSON(f *Facts, w *os.File) {
	type out struct {
		Fns      []*Fn
		Edges    []Edge
		Viol     []Violation
		Unknowns []string
		CacheM   []MethodFact
		LoadErrs []string
		ChanUses []ChanUse
		ChanImpl []ChanUse
	}
	o := out{Edges: f.Edges, Viol: f.Viol, Unknowns: f.Unknowns, CacheM: f.CacheM, LoadErrs: f.LoadErrs,
		ChanUses: f.ChanUses, ChanImpl: f.ChanImpl}
	for _, k := range f.Order {
		fn := f.Fns[k]
		if factPackages[fn.Pkg] && (len(fn.Acquires) > 0 || len(fn.Accesses) > 0 || len(fn.Unknowns) > 0) {
			o.Fns = append(o.Fns, fn)
		}
	}
	enc := json.NewEncoder(w)
	enc.SetIndent("", " ")
	enc.Encode(o)
}

func dump(f *Facts, w *os.File) {
	for _, e := range f.LoadErrs {
		fmt.Fprintln(w, "LOADERR", e)
	}
	for _, k := range f.Order {
		fn := f.Fns[k]
		if len(fn.Acquires)+len(fn.Accesses)+len(fn.Unknowns) == 0 && len(f.Needs[k]) == 0 {
			continue
		}
		fmt.Fprintf(w, "FN %s root=%q whole=%s needs=%v\n", k, fn.Root, fn.WholeBody, keys(f.Needs[k]))
		for _, a := range fn.Acquires {
			fmt.Fprintf(w, "   acquire %s held=%v %s\n", a.Lock, a.HeldMay, a.Pos)
		}
		for _, a := range fn.Accesses {
			fmt.Fprintf(w, "   access %s %s must=%v %s\n", a.Field, rw(a.Write), a.HeldMust, a.Pos)
		}
		for _, c := range fn.Calls {
			if len(c.HeldMay) > 0 {
				fmt.Fprintf(w, "   call %v (%s) may=%v must=%v go=%v %s\n", c.Callees, c.Desc, c.HeldMay, c.HeldMust, c.Go, c.Pos)
			}
		}
		for _, u := range fn.Unknowns {
			fmt.Fprintf(w, "   UNKNOWN %s\n", u)
		}
	}
	for _, e := range f.Edges {
		fmt.Fprintf(w, "EDGE %s -> %s via %s\n", e.From, e.To, e.Via)
	}
	for _, v := range f.Viol {
		fmt.Fprintf(w, "VIOL %s lock=%s fields=%v via=%v\n", v.Root, v.Lock, v.Fields, v.Via)
	}
	for _, u := range f.Unknowns {
		fmt.Fprintf(w, "UNKNOWN %s\n", u)
	}
	for _, m := range f.CacheM {
		fmt.Fprintf(w, "CACHEMETHOD %s %v\n", m.Name, m.Locked)
	}
	for _, u := range f.ChanUses {
		fmt.Fprintf(w, "CHANUSE %s %s %s %s %s: %s\n", u.Pos, u.Fn, u.Chan, u.Kind, u.Wait, u.What)
	}
	for _, u := range f.ChanImpl {
		fmt.Fprintf(w, "CHANIMPL %s %s %s %s %s: %s\n", u.Pos, u.Fn, u.Chan, u.Kind, u.Wait, u.What)
	}
}
