// Fact extractor for C13 (b)/(c) and the C05 mutex fact: lock/unlock structure,
// lock-order edges and guarded-field accesses of the galene packages, computed
// from the source of $VERIF_REPO with go/ast + go/types (dependencies are read
// from the export data `go list -export` produces, galene's own packages are
// type-checked from source in one universe so that interface calls can be
// resolved to every implementation in the repository).
//
// The analysis is deliberately dumb: held sets are lexical per function body
// (Lock / Unlock / defer Unlock, must = intersection and may = union at joins,
// goroutine bodies start empty), locks are named at type level ("Group.mu",
// "groups.mu", "WhipClient.mu").  Where the shape of the code defeats it, it
// records an `unknown` and every consumer fails closed.
package main

import (
	"bytes"
	"encoding/json"
	"fmt"
	"go/ast"
	"go/constant"
	"go/importer"
	"go/parser"
	"go/token"
	"go/types"
	"io"
	"os"
	"os/exec"
	"path/filepath"
	"sort"
	"strings"
)

const modulePath = "github.com/jech/galene"

// packages whose functions are reported on (lock structure, accesses); all
// galene packages are analysed for call resolution and acquire summaries.
var factPackages = map[string]bool{
	"group": true, "rtpconn": true, "unbounded": true, "diskwriter": true,
	"stats": true, "packetcache": true, "packetmap": true, "token": true,
}

// guard map: "pkg.Type" -> guarded fields ("*" = every field but the mutex) and guard lock
type guardSpec struct {
	fields map[string]bool
	all    bool
	lock   string
}

var guardMap = map[string]guardSpec{
	"group.Group": {fields: set("clients", "locked", "description", "history", "timestamp", "data"), lock: "Group.mu"},
	"group.groups": {fields: set("groups"), lock: "groups.mu"},
	"unbounded.Channel": {fields: set("queue"), lock: "Channel.mu"},
	"packetcache.Cache": {all: true, lock: "Cache.mu"},
	"packetmap.Map": {all: true, lock: "Map.mu"},
	"rtpconn.WhipClient": {fields: set("group", "connection", "etag", "permissions"), lock: "WhipClient.mu"},
}

func set(xs ...string) map[string]bool {
	m := map[string]bool{}
	for _, x := range xs {
		m[x] = true
	}
	return m
}

// ---------------------------------------------------------------------------
// facts

type Acquire struct {
	Lock    string
	HeldMay []string
	Pos     string
}

type Call struct {
	Callees  []string // resolved function keys (several for interface calls)
	Desc     string   // how the call was written / resolved
	HeldMay  []string
	HeldMust []string
	Go       bool
	Pos      string
}

type Access struct {
	Field    string // "Group.clients"
	Write    bool
	Guard    string
	HeldMust []string
	Pos      string
}

type Fn struct {
	Key       string
	Pkg       string
	Root      string // non-empty: why this function is an entry point
	Literal   bool
	Acquires  []Acquire
	Calls     []Call
	Accesses  []Access
	Unknowns  []string
	WholeBody string // for methods: "locked:<lock>" if the body is Lock + defer Unlock around everything
	obj       *types.Func
	nparams   int
}

type Facts struct {
	Repo     string
	Fns      map[string]*Fn
	Order    []string // sorted keys
	Unknowns []string
	// derived
	AcqAll   map[string]map[string][]string // fn -> lock -> call chain to the direct acquire
	Edges    []Edge
	Needs    map[string]map[string]bool // fn -> locks needed from the caller
	Viol     []Violation
	CacheM   []MethodFact
	LoadErrs []string
	// use sites of unbounded.Channel outside its package / uses of Channel.Ch inside it (chanuse.go)
	ChanUses []ChanUse
	ChanImpl []ChanUse
}

type Edge struct {
	From, To string
	Via      string
}

type Violation struct {
	Root   string
	Lock   string
	Fields []string
	Via    []string
	// the facts needed to re-derive it
	Facts []string
}

type MethodFact struct {
	Name string
	// every access to a Cache field made by the method (directly or in a callee) happens with Cache.mu held,
	// and the method takes Cache.mu itself
	Locked bool
	// the body is literally `Lock(); defer Unlock(); ...`
	WholeBody bool
}

func directLocks(fn *Fn) []string {
	var r []string
	for _, a := range fn.Acquires {
		r = append(r, a.Lock)
	}
	return r
}

// ---------------------------------------------------------------------------
// loading

type listPkg struct {
	ImportPath string
	Dir        string
	GoFiles    []string
	Export     string
	Standard   bool
	Module     *struct{ Path string }
	Error      *struct{ Err string }
}

type loader struct {
	fset    *token.FileSet
	list    map[string]*listPkg
	pkgs    map[string]*types.Package
	infos   map[string]*types.Info
	files   map[string][]*ast.File
	gc      types.Importer
	errs    []string
	loading map[string]bool
}

func goList(repo string) (map[string]*listPkg, error) {
	cmd := exec.Command("go", "list", "-e", "-export", "-deps", "-json=ImportPath,Dir,GoFiles,Export,Standard,Module,Error", "./...")
	cmd.Dir = repo
	env := []string{}
	for _, kv := range os.Environ() {
		if strings.HasPrefix(kv, "GOFLAGS=") || strings.HasPrefix(kv, "GOPROXY=") ||
			strings.HasPrefix(kv, "GOTOOLCHAIN=") || strings.HasPrefix(kv, "GOSUMDB=") || strings.HasPrefix(kv, "CGO_ENABLED=") {
			continue
		}
		env = append(env, kv)
	}
	env = append(env, "GOFLAGS=-mod=mod", "GOPROXY=off", "CGO_ENABLED=0")
	cmd.Env = env
	var errb bytes.Buffer
	cmd.Stderr = &errb
	out, err := cmd.Output()
	if err != nil {
		return nil, fmt.Errorf("go list: %v: %s", err, errb.String())
	}
	res := map[string]*listPkg{}
	dec := json.NewDecoder(bytes.NewReader(out))
	for {
		var p listPkg
		if err := dec.Decode(&p); err == io.EOF {
			break
		} else if err != nil {
			return nil, err
		}
		pp := p
		res[p.ImportPath] = &pp
	}
	return res, nil
}

func (l *loader) Import(path string) (*types.Package, error) {
	if path == "unsafe" {
		return types.Unsafe, nil
	}
	if p, ok := l.pkgs[path]; ok {
		return p, nil
	}
	lp := l.list[path]
	if lp != nil && lp.Module != nil && lp.Module.Path == modulePath && !strings.Contains(path, "/zzverif") {
		return l.loadSource(path)
	}
	p, err := l.gc.Import(path)
	if err == nil {
		l.pkgs[path] = p
	}
	return p, err
}

func (l *loader) loadSource(path string) (*types.Package, error) {
	if l.loading[path] {
		return nil, fmt.Errorf("import cycle through %s", path)
	}
	l.loading[path] = true
	defer delete(l.loading, path)
	lp := l.list[path]
	var files []*ast.File
	for _, f := range lp.GoFiles {
		af, err := parser.ParseFile(l.fset, filepath.Join(lp.Dir, f), nil, parser.ParseComments)
		if err != nil {
			l.errs = append(l.errs, err.Error())
			continue
		}
		files = append(files, af)
	}
	info := &types.Info{
		Types:      map[ast.Expr]types.TypeAndValue{},
		Defs:       map[*ast.Ident]types.Object{},
		Uses:       map[*ast.Ident]types.Object{},
		Selections: map[*ast.SelectorExpr]*types.Selection{},
		Instances:  map[*ast.Ident]types.Instance{},
	}
	conf := types.Config{Importer: l, Error: func(err error) { l.errs = append(l.errs, err.Error()) }}
	pkg, _ := conf.Check(path, l.fset, files, info)
	l.pkgs[path] = pkg
	l.infos[path] = info
	l.files[path] = files
	return pkg, nil
}

func load(repo string) (*loader, error) {
	list, err := goList(repo)
	if err != nil {
		return nil, err
	}
	l := &loader{fset: token.NewFileSet(), list: list, pkgs: map[string]*types.Package{},
		infos: map[string]*types.Info{}, files: map[string][]*ast.File{}, loading: map[string]bool{}}
	l.gc = importer.ForCompiler(l.fset, "gc", func(path string) (io.ReadCloser, error) {
		lp := list[path]
		if lp == nil || lp.Export == "" {
			return nil, fmt.Errorf("no export data for %s", path)
		}
		return os.Open(lp.Export)
	})
	var paths []string
	for p, lp := range list {
		if lp.Module != nil && lp.Module.Path == modulePath && !strings.Contains(p, "/zzverif") {
			paths = append(paths, p)
		}
	}
	sort.Strings(paths)
	for _, p := range paths {
		if _, err := l.Import(p); err != nil {
			l.errs = append(l.errs, err.Error())
		}
	}
	return l, nil
}

// ---------------------------------------------------------------------------
// analysis

type analyser struct {
	l         *loader
	facts     *Facts
	fieldName map[*types.Var]string // guarded (and all struct) fields -> "Type.field"
	fieldOwner map[*types.Var]string // field -> label of the owning type ("Group", "groups")
	fieldOwnerQ map[*types.Var]string // field -> "pkg.Type" (key of guardMap)
	litKeys   map[*ast.FuncLit]string
	bodyOf    map[string]*fnBody // declared functions, for specialisation on constant bool arguments
	typeNames map[string]int        // simple type name -> number of galene types with it
	named     []*types.Named        // all galene named types
	ifaces    map[*types.TypeName]bool
	paramBind map[string][]string // "fnkey#param<i>" -> bound function keys
	fnOfObj   map[*types.Func]string
	litCount  map[string]int
	localFunc map[*types.Var]string // local variable holding a function literal
	paramOf   map[*types.Var]string // parameter var -> "fnkey#param<i>"
	implMethods map[*types.Func]bool
}

func shortPkg(p *types.Package) string {
	if p == nil {
		return ""
	}
	return p.Name()
}

func isGalene(p *types.Package) bool {
	return p != nil && (p.Path() == modulePath || strings.HasPrefix(p.Path(), modulePath+"/")) && !strings.Contains(p.Path(), "/zzverif")
}

func derefNamed(t types.Type) *types.Named {
	for {
		switch tt := t.(type) {
		case *types.Pointer:
			t = tt.Elem()
		case *types.Named:
			return tt
		case *types.Alias:
			t = types.Unalias(tt)
		default:
			return nil
		}
	}
}

func (a *analyser) typeLabel(n *types.Named) string {
	n = n.Origin()
	name := n.Obj().Name()
	if a.typeNames[name] > 1 {
		return shortPkg(n.Obj().Pkg()) + "." + name
	}
	return name
}

func (a *analyser) funcKey(f *types.Func) string {
	f = f.Origin()
	if k, ok := a.fnOfObj[f]; ok {
		return k
	}
	sig := f.Type().(*types.Signature)
	k := shortPkg(f.Pkg()) + "."
	if r := sig.Recv(); r != nil {
		if n := derefNamed(r.Type()); n != nil {
			k += n.Origin().Obj().Name() + "."
		} else if _, ok := r.Type().Underlying().(*types.Interface); ok {
			k += "(iface)."
		}
	}
	k += f.Name()
	a.fnOfObj[f] = k
	return k
}

func (a *analyser) pos(p token.Pos) string {
	ps := a.l.fset.Position(p)
	rel, err := filepath.Rel(a.facts.Repo, ps.Filename)
	if err != nil {
		rel = ps.Filename
	}
	return fmt.Sprintf("%s:%d", rel, ps.Line)
}

type fnBody struct {
	fn   *Fn
	body *ast.BlockStmt
	info *types.Info
	pkg  *types.Package
}

// specialise analyses `key` again under the assumption that the bool parameters in lits have the given
// constant values (call sites that pass `true`/`false` literally): `if` statements whose condition is
// decided by them keep only the branch taken.  Returns the key of the specialised copy ("" if not applicable).
func (a *analyser) specialise(key string, lits map[int]bool) string {
	b := a.bodyOf[key]
	if b == nil || b.fn.obj == nil {
		return ""
	}
	sig := b.fn.obj.Type().(*types.Signature)
	env := map[*types.Var]bool{}
	var parts []string
	for i := 0; i < sig.Params().Len(); i++ {
		v, ok := lits[i]
		if !ok {
			continue
		}
		pv := sig.Params().At(i)
		if bt, ok := pv.Type().Underlying().(*types.Basic); !ok || bt.Kind() != types.Bool {
			continue
		}
		env[pv] = v
		parts = append(parts, fmt.Sprintf("%s=%v", pv.Name(), v))
	}
	if len(env) == 0 {
		return ""
	}
	nk := key + "[" + strings.Join(parts, ",") + "]"
	if _, ok := a.facts.Fns[nk]; ok {
		return nk
	}
	fn := &Fn{Key: nk, Pkg: b.fn.Pkg, obj: b.fn.obj}
	a.facts.Fns[nk] = fn
	w := &walker{a: a, fn: fn, info: b.info, pkg: b.pkg, env: env,
		st: &lockState{may: map[string]bool{}, must: map[string]bool{}}}
	w.block(b.body.List)
	return nk
}

// evalBool evaluates a condition under the walker's constant environment.
func (w *walker) evalBool(e ast.Expr) (val, known bool) {
	if w.env == nil || e == nil {
		return false, false
	}
	switch e := e.(type) {
	case *ast.ParenExpr:
		return w.evalBool(e.X)
	case *ast.Ident:
		if v, ok := w.info.Uses[e].(*types.Var); ok {
			if b, ok := w.env[v]; ok {
				return b, true
			}
		}
	case *ast.UnaryExpr:
		if e.Op == token.NOT {
			if v, k := w.evalBool(e.X); k {
				return !v, true
			}
		}
	case *ast.BinaryExpr:
		x, kx := w.evalBool(e.X)
		y, ky := w.evalBool(e.Y)
		switch e.Op {
		case token.LOR:
			if (kx && x) || (ky && y) {
				return true, true
			}
			if kx && ky {
				return false, true
			}
		case token.LAND:
			if (kx && !x) || (ky && !y) {
				return false, true
			}
			if kx && ky {
				return true, true
			}
		}
	}
	return false, false
}

type lockState struct {
	may, must map[string]bool
	dead      bool
}

func (s *lockState) clone() *lockState {
	c := &lockState{may: map[string]bool{}, must: map[string]bool{}, dead: s.dead}
	for k := range s.may {
		c.may[k] = true
	}
	for k := range s.must {
		c.must[k] = true
	}
	return c
}

func join(x, y *lockState) *lockState {
	if x == nil || x.dead {
		if y == nil {
			return &lockState{may: map[string]bool{}, must: map[string]bool{}, dead: true}
		}
		return y.clone()
	}
	if y == nil || y.dead {
		return x.clone()
	}
	r := &lockState{may: map[string]bool{}, must: map[string]bool{}}
	for k := range x.may {
		r.may[k] = true
	}
	for k := range y.may {
		r.may[k] = true
	}
	for k := range x.must {
		if y.must[k] {
			r.must[k] = true
		}
	}
	return r
}

func keys(m map[string]bool) []string {
	r := make([]string, 0, len(m))
	for k := range m {
		r = append(r, k)
	}
	sort.Strings(r)
	return r
}

type walker struct {
	a      *analyser
	fn     *Fn
	info   *types.Info
	pkg    *types.Package
	st     *lockState
	breaks []*lockState // stack of accumulated break states
	env    map[*types.Var]bool // constant bool parameters (specialised copies only)
}

func (w *walker) unknown(format string, args ...any) {
	w.fn.Unknowns = append(w.fn.Unknowns, fmt.Sprintf(format, args...))
}

// mutexCall recognises x.Lock()/Unlock()/RLock()/RUnlock() on a sync.Mutex/RWMutex.
func (w *walker) mutexCall(call *ast.CallExpr) (op string, lock string, ok bool) {
	sel, isSel := call.Fun.(*ast.SelectorExpr)
	if !isSel {
		return
	}
	f, isFunc := w.info.Uses[sel.Sel].(*types.Func)
	if !isFunc || f.Pkg() == nil || f.Pkg().Path() != "sync" {
		return
	}
	sig := f.Type().(*types.Signature)
	if sig.Recv() == nil {
		return
	}
	rn := derefNamed(sig.Recv().Type())
	if rn == nil || (rn.Obj().Name() != "Mutex" && rn.Obj().Name() != "RWMutex") {
		return
	}
	switch sel.Sel.Name {
	case "Lock", "RLock":
		op = "lock"
	case "Unlock", "RUnlock":
		op = "unlock"
	case "TryLock", "TryRLock":
		op = "trylock"
	default:
		return
	}
	return op, w.lockName(sel.X), true
}

// lockName names the mutex expression at type level; "" if it cannot.
func (w *walker) lockName(x ast.Expr) string {
	switch e := x.(type) {
	case *ast.ParenExpr:
		return w.lockName(e.X)
	case *ast.UnaryExpr:
		return w.lockName(e.X)
	case *ast.SelectorExpr:
		selx := w.info.Selections[e]
		if selx == nil {
			// package-qualified variable
			if v, ok := w.info.Uses[e.Sel].(*types.Var); ok && v.Parent() == v.Pkg().Scope() {
				return v.Name()
			}
			return ""
		}
		if selx.Kind() != types.FieldVal {
			return ""
		}
		field := selx.Obj().(*types.Var).Origin()
		// owner: a named struct type, or a package-level variable of anonymous struct type
		if owner, ok := w.a.fieldOwner[field]; ok {
			return owner + "." + field.Name()
		}
		return ""
	case *ast.Ident:
		if v, ok := w.info.Uses[e].(*types.Var); ok && v.Pkg() != nil && v.Parent() == v.Pkg().Scope() {
			return v.Name()
		}
		return ""
	}
	return ""
}

func (w *walker) block(stmts []ast.Stmt) {
	for _, s := range stmts {
		if w.st.dead {
			// unreachable (after return/panic/break/continue) -- except that a label may be a jump target
			if _, ok := s.(*ast.LabeledStmt); !ok {
				continue
			}
			w.st.dead = false
		}
		w.stmt(s)
	}
}

func (w *walker) stmt(s ast.Stmt) {
	if s == nil {
		return
	}
	switch s := s.(type) {
	case *ast.BlockStmt:
		w.block(s.List)
	case *ast.ExprStmt:
		if call, ok := s.X.(*ast.CallExpr); ok {
			if op, lock, ok := w.mutexCall(call); ok {
				w.lockOp(op, lock, call)
				return
			}
			if id, ok := call.Fun.(*ast.Ident); ok && id.Name == "panic" {
				w.expr(s.X, false)
				w.st.dead = true
				return
			}
		}
		w.expr(s.X, false)
	case *ast.AssignStmt:
		for _, r := range s.Rhs {
			w.expr(r, false)
		}
		for i, l := range s.Lhs {
			// remember local function variables
			if id, ok := l.(*ast.Ident); ok && len(s.Rhs) == len(s.Lhs) {
				if lit, ok := s.Rhs[i].(*ast.FuncLit); ok {
					if v, ok := w.objOf(id).(*types.Var); ok {
						if key, ok := w.a.litKeys[lit]; ok {
							w.a.localFunc[v] = key
						}
					}
				}
			}
			w.expr(l, true)
		}
	case *ast.IncDecStmt:
		w.expr(s.X, true)
	case *ast.DeclStmt:
		if gd, ok := s.Decl.(*ast.GenDecl); ok {
			for _, sp := range gd.Specs {
				if vs, ok := sp.(*ast.ValueSpec); ok {
					for i, v := range vs.Values {
						w.expr(v, false)
						if lit, ok := v.(*ast.FuncLit); ok && i < len(vs.Names) {
							if vv, ok := w.info.Defs[vs.Names[i]].(*types.Var); ok {
								if key, ok := w.a.litKeys[lit]; ok {
									w.a.localFunc[vv] = key
								}
							}
						}
					}
				}
			}
		}
	case *ast.SendStmt:
		w.expr(s.Chan, false)
		w.expr(s.Value, false)
	case *ast.ReturnStmt:
		for _, r := range s.Results {
			w.expr(r, false)
		}
		w.st.dead = true
	case *ast.GoStmt:
		w.call(s.Call, true, false)
	case *ast.DeferStmt:
		if op, lock, ok := w.mutexCall(s.Call); ok {
			if op == "unlock" {
				// stays held until the function returns
				if lock == "" {
					w.unknown("deferred unlock of an unnamed mutex at %s", w.a.pos(s.Pos()))
				}
				return
			}
			w.unknown("deferred %s at %s", op, w.a.pos(s.Pos()))
			return
		}
		w.call(s.Call, false, true)
	case *ast.IfStmt:
		w.stmt(s.Init)
		w.expr(s.Cond, false)
		if v, known := w.evalBool(s.Cond); known {
			if v {
				w.stmt(s.Body)
			} else if s.Else != nil {
				w.stmt(s.Else)
			}
			return
		}
		entry := w.st.clone()
		w.stmt(s.Body)
		thenSt := w.st
		w.st = entry
		if s.Else != nil {
			w.stmt(s.Else)
		}
		w.st = join(thenSt, w.st)
	case *ast.ForStmt:
		w.stmt(s.Init)
		w.expr(s.Cond, false)
		w.loop(func() {
			w.stmt(s.Body)
			w.stmt(s.Post)
			w.expr(s.Cond, false)
		}, s.Cond == nil, s.Pos())
	case *ast.RangeStmt:
		w.expr(s.X, false)
		if s.Key != nil {
			w.expr(s.Key, true)
		}
		if s.Value != nil {
			w.expr(s.Value, true)
		}
		w.loop(func() { w.stmt(s.Body) }, false, s.Pos())
	case *ast.SwitchStmt:
		w.stmt(s.Init)
		w.expr(s.Tag, false)
		w.cases(s.Body, func(c ast.Stmt) ([]ast.Expr, []ast.Stmt, bool) {
			cc := c.(*ast.CaseClause)
			return cc.List, cc.Body, cc.List == nil
		})
	case *ast.TypeSwitchStmt:
		w.stmt(s.Init)
		w.stmt(s.Assign)
		w.cases(s.Body, func(c ast.Stmt) ([]ast.Expr, []ast.Stmt, bool) {
			cc := c.(*ast.CaseClause)
			return nil, cc.Body, cc.List == nil
		})
	case *ast.SelectStmt:
		entry := w.st.clone()
		var out *lockState
		w.breaks = append(w.breaks, nil)
		for _, c := range s.Body.List {
			cc := c.(*ast.CommClause)
			w.st = entry.clone()
			w.stmt(cc.Comm)
			w.block(cc.Body)
			out = join(out, w.st)
		}
		br := w.breaks[len(w.breaks)-1]
		w.breaks = w.breaks[:len(w.breaks)-1]
		if len(s.Body.List) == 0 {
			out = entry
			out.dead = true
		}
		w.st = join(out, br)
	case *ast.LabeledStmt:
		w.stmt(s.Stmt)
	case *ast.BranchStmt:
		switch s.Tok {
		case token.BREAK:
			if len(w.breaks) > 0 {
				w.breaks[len(w.breaks)-1] = join(w.breaks[len(w.breaks)-1], w.st)
			}
			w.st.dead = true
		case token.CONTINUE:
			w.st.dead = true
		case token.GOTO:
			w.unknown("goto at %s", w.a.pos(s.Pos()))
		case token.FALLTHROUGH:
		}
	case *ast.EmptyStmt:
	default:
		w.unknown("statement %T at %s", s, w.a.pos(s.Pos()))
	}
}

func (w *walker) objOf(id *ast.Ident) types.Object {
	if o := w.info.Defs[id]; o != nil {
		return o
	}
	return w.info.Uses[id]
}

func (w *walker) cases(body *ast.BlockStmt, get func(ast.Stmt) ([]ast.Expr, []ast.Stmt, bool)) {
	entry := w.st.clone()
	var out *lockState
	hasDefault := false
	w.breaks = append(w.breaks, nil)
	for _, c := range body.List {
		exprs, stmts, def := get(c)
		if def {
			hasDefault = true
		}
		w.st = entry.clone()
		for _, e := range exprs {
			w.expr(e, false)
		}
		w.block(stmts)
		out = join(out, w.st)
	}
	br := w.breaks[len(w.breaks)-1]
	w.breaks = w.breaks[:len(w.breaks)-1]
	if !hasDefault {
		out = join(out, entry)
	}
	w.st = join(out, br)
}

func (w *walker) loop(body func(), infinite bool, pos token.Pos) {
	entry := w.st.clone()
	w.breaks = append(w.breaks, nil)
	body()
	end := w.st
	br := w.breaks[len(w.breaks)-1]
	w.breaks = w.breaks[:len(w.breaks)-1]
	if !end.dead && !entry.dead {
		if strings.Join(keys(end.must), ",") != strings.Join(keys(entry.must), ",") ||
			strings.Join(keys(end.may), ",") != strings.Join(keys(entry.may), ",") {
			w.unknown("the set of held locks changes across an iteration of the loop at %s", w.a.pos(pos))
		}
	}
	var out *lockState
	if infinite {
		out = br
		if out == nil {
			out = entry.clone()
			out.dead = true
		}
	} else {
		out = join(join(entry, end), br)
	}
	w.st = out
}

func (w *walker) lockOp(op, lock string, call *ast.CallExpr) {
	if lock == "" {
		w.unknown("%s of a mutex that cannot be named at %s", op, w.a.pos(call.Pos()))
		return
	}
	switch op {
	case "lock":
		w.fn.Acquires = append(w.fn.Acquires, Acquire{Lock: lock, HeldMay: keys(w.st.may), Pos: w.a.pos(call.Pos())})
		w.st.may[lock] = true
		w.st.must[lock] = true
	case "unlock":
		delete(w.st.may, lock)
		delete(w.st.must, lock)
	case "trylock":
		w.unknown("TryLock of %s at %s", lock, w.a.pos(call.Pos()))
	}
}

// expr scans an expression for calls, function literals and guarded accesses.
func (w *walker) expr(e ast.Expr, lhs bool) {
	if e == nil {
		return
	}
	switch e := e.(type) {
	case *ast.CallExpr:
		if op, lock, ok := w.mutexCall(e); ok {
			// a lock operation inside an expression
			w.lockOp(op, lock, e)
			if op != "trylock" {
				w.unknown("lock operation inside an expression at %s", w.a.pos(e.Pos()))
			}
			return
		}
		w.call(e, false, false)
	case *ast.FuncLit:
		// a literal that is neither called nor passed in a recognised way: it escapes
		key := w.a.litKeys[e]
		if f := w.a.facts.Fns[key]; f != nil && f.Root == "" {
			f.Root = "function literal that escapes"
		}
	case *ast.SelectorExpr:
		w.selector(e, lhs)
	case *ast.IndexExpr:
		w.expr(e.X, lhs)
		w.expr(e.Index, false)
	case *ast.IndexListExpr:
		w.expr(e.X, lhs)
	case *ast.SliceExpr:
		w.expr(e.X, lhs)
		w.expr(e.Low, false)
		w.expr(e.High, false)
		w.expr(e.Max, false)
	case *ast.StarExpr:
		w.expr(e.X, false)
	case *ast.ParenExpr:
		w.expr(e.X, lhs)
	case *ast.UnaryExpr:
		// &x.f: the address escapes; treat as a write
		w.expr(e.X, lhs || e.Op == token.AND)
	case *ast.BinaryExpr:
		w.expr(e.X, false)
		w.expr(e.Y, false)
	case *ast.KeyValueExpr:
		w.expr(e.Value, false)
	case *ast.CompositeLit:
		for _, el := range e.Elts {
			w.expr(el, false)
		}
	case *ast.TypeAssertExpr:
		w.expr(e.X, false)
	case *ast.Ident, *ast.BasicLit, *ast.ArrayType, *ast.MapType, *ast.ChanType, *ast.FuncType,
		*ast.InterfaceType, *ast.StructType, *ast.Ellipsis:
	default:
		w.unknown("expression %T at %s", e, w.a.pos(e.Pos()))
	}
}

func (w *walker) selector(e *ast.SelectorExpr, lhs bool) {
	selx := w.info.Selections[e]
	if selx == nil {
		// package-qualified identifier
		return
	}
	w.expr(e.X, false)
	if selx.Kind() != types.FieldVal {
		return
	}
	field := selx.Obj().(*types.Var).Origin()
	owner, ok := w.a.fieldOwner[field]
	if !ok {
		return
	}
	ownerQ := w.a.fieldOwnerQ[field]
	spec, ok := guardMap[ownerQ]
	if !ok {
		return
	}
	if !(spec.all || spec.fields[field.Name()]) {
		return
	}
	// the mutex itself is not a guarded field
	if n := derefNamed(field.Type()); n != nil && n.Obj().Pkg() != nil && n.Obj().Pkg().Path() == "sync" {
		return
	}
	w.fn.Accesses = append(w.fn.Accesses, Access{Field: owner + "." + field.Name(), Write: lhs, Guard: spec.lock,
		HeldMust: keys(w.st.must), Pos: w.a.pos(e.Pos())})
}

var asyncRegistrars = map[string]bool{"AfterFunc": true}

// call handles a call expression: arguments, function literals, resolution.
func (w *walker) call(call *ast.CallExpr, isGo, isDefer bool) {
	// builtins with write semantics
	if id, ok := call.Fun.(*ast.Ident); ok {
		if _, isBuiltin := w.info.Uses[id].(*types.Builtin); isBuiltin {
			for i, a := range call.Args {
				w.expr(a, i == 0 && (id.Name == "delete" || id.Name == "clear"))
			}
			return
		}
	}
	// type conversion
	if tv, ok := w.info.Types[call.Fun]; ok && tv.IsType() {
		for _, a := range call.Args {
			w.expr(a, false)
		}
		return
	}
	callees, desc, dynamic := w.resolve(call)
	// scan the function expression (receiver) and the arguments
	switch f := call.Fun.(type) {
	case *ast.SelectorExpr:
		if w.info.Selections[f] != nil {
			w.expr(f.X, false)
		}
	case *ast.FuncLit:
	default:
		if _, ok := f.(*ast.Ident); !ok {
			w.expr(call.Fun, false)
		}
	}
	external := len(callees) == 0 && !dynamic
	for i, arg := range call.Args {
		lit, isLit := arg.(*ast.FuncLit)
		if !isLit {
			// a function value passed along
			if key := w.funcValue(arg); key != "" {
				w.bindArg(callees, i, key, external, call, isGo)
				continue
			}
			w.expr(arg, false)
			continue
		}
		key := w.a.litKeys[lit]
		w.bindArg(callees, i, key, external, call, isGo)
	}
	if lit, ok := call.Fun.(*ast.FuncLit); ok {
		key := w.a.litKeys[lit]
		callees = []string{key}
		desc = "function literal called in place"
		if isGo {
			w.a.facts.Fns[key].Root = "go statement"
		}
	}
	if dynamic {
		w.unknown("dynamic call %s at %s", desc, w.a.pos(call.Pos()))
		return
	}
	if len(callees) == 0 {
		return
	}
	// constant bool arguments: use the callee specialised on them
	lits := map[int]bool{}
	for i, arg := range call.Args {
		if tv, ok := w.info.Types[arg]; ok && tv.Value != nil && tv.Value.Kind() == constant.Bool {
			lits[i] = constant.BoolVal(tv.Value)
		}
	}
	if len(lits) > 0 {
		callees = append([]string(nil), callees...)
		for j, c := range callees {
			if sk := w.a.specialise(c, lits); sk != "" {
				callees[j] = sk
			}
		}
	}
	if isGo {
		for _, c := range callees {
			if f := w.a.facts.Fns[c]; f != nil && f.Root == "" {
				f.Root = "go statement"
			}
		}
	}
	w.fn.Calls = append(w.fn.Calls, Call{Callees: callees, Desc: desc, HeldMay: keys(w.st.may), HeldMust: keys(w.st.must),
		Go: isGo, Pos: w.a.pos(call.Pos())})
}

// funcValue: is this argument expression a reference to a known function (not a call)?
func (w *walker) funcValue(arg ast.Expr) string {
	switch e := arg.(type) {
	case *ast.Ident:
		switch o := w.info.Uses[e].(type) {
		case *types.Func:
			if isGalene(o.Pkg()) {
				return w.a.funcKey(o)
			}
		case *types.Var:
			if k, ok := w.a.localFunc[o]; ok {
				return k
			}
			if k, ok := w.a.paramOf[o]; ok {
				if _, isSig := o.Type().Underlying().(*types.Signature); isSig {
					return k
				}
			}
		}
	case *ast.SelectorExpr:
		if o, ok := w.info.Uses[e.Sel].(*types.Func); ok && isGalene(o.Pkg()) {
			if sx := w.info.Selections[e]; sx == nil || sx.Kind() == types.MethodVal {
				if _, isIface := o.Type().(*types.Signature).Recv().Type().Underlying().(*types.Interface); !isIface || true {
					if sx != nil {
						w.expr(e.X, false)
					}
					return w.a.funcKey(o)
				}
			}
		}
	}
	return ""
}

// bindArg: a function (literal or named) passed as argument i of a call.
func (w *walker) bindArg(callees []string, i int, key string, external bool, call *ast.CallExpr, isGo bool) {
	f := w.a.facts.Fns[key]
	if external {
		// passed to code outside galene: registered callbacks run later on other goroutines; other
		// higher-order functions (sort.Slice, slices.DeleteFunc, filepath.WalkDir, ...) call it in place
		name := ""
		if sel, ok := call.Fun.(*ast.SelectorExpr); ok {
			name = sel.Sel.Name
		} else if id, ok := call.Fun.(*ast.Ident); ok {
			name = id.Name
		}
		if f != nil && f.Root == "" {
			f.Root = "callback passed to " + name
		}
		if !(strings.HasPrefix(name, "On") || asyncRegistrars[name]) && !isGo {
			w.fn.Calls = append(w.fn.Calls, Call{Callees: []string{key}, Desc: "callback run by " + name,
				HeldMay: keys(w.st.may), HeldMust: keys(w.st.must), Pos: w.a.pos(call.Pos())})
		}
		return
	}
	for _, c := range callees {
		pk := fmt.Sprintf("%s#param%d", c, i)
		w.a.paramBind[pk] = appendUniq(w.a.paramBind[pk], key)
	}
}

func appendUniq(xs []string, x string) []string {
	for _, y := range xs {
		if y == x {
			return xs
		}
	}
	return append(xs, x)
}

// resolve returns the galene functions a call may reach.
func (w *walker) resolve(call *ast.CallExpr) (callees []string, desc string, dynamic bool) {
	fun := call.Fun
	for {
		if p, ok := fun.(*ast.ParenExpr); ok {
			fun = p.X
			continue
		}
		if ix, ok := fun.(*ast.IndexExpr); ok { // explicit instantiation
			fun = ix.X
			continue
		}
		if ix, ok := fun.(*ast.IndexListExpr); ok {
			fun = ix.X
			continue
		}
		break
	}
	switch f := fun.(type) {
	case *ast.FuncLit:
		return nil, "literal", false
	case *ast.Ident:
		switch o := w.info.Uses[f].(type) {
		case *types.Func:
			if isGalene(o.Pkg()) {
				return []string{w.a.funcKey(o)}, f.Name, false
			}
			return nil, f.Name, false
		case *types.Var:
			if k, ok := w.a.paramOf[o]; ok {
				return []string{k}, "parameter " + f.Name, false
			}
			if k, ok := w.a.localFunc[o]; ok {
				return []string{k}, "local function " + f.Name, false
			}
			return nil, "through variable " + f.Name, true
		}
		return nil, f.Name, false
	case *ast.SelectorExpr:
		o, ok := w.info.Uses[f.Sel].(*types.Func)
		if !ok {
			// field of function type, or package-level function variable
			if v, ok := w.info.Uses[f.Sel].(*types.Var); ok {
				if _, isSig := v.Type().Underlying().(*types.Signature); isSig {
					if !isGalene(v.Pkg()) {
						return nil, f.Sel.Name, false
					}
					return nil, "through field/variable " + f.Sel.Name, true
				}
			}
			return nil, f.Sel.Name, false
		}
		sig := o.Type().(*types.Signature)
		if sig.Recv() != nil {
			if _, isIface := sig.Recv().Type().Underlying().(*types.Interface); isIface {
				// interface method: resolve within galene if the interface is galene's
				rn := derefNamed(sig.Recv().Type())
				if rn == nil || !isGalene(rn.Obj().Pkg()) {
					// the static type of the receiver expression may still be a galene interface embedding it
					if tv, ok := w.info.Types[f.X]; ok {
						if n := derefNamed(tv.Type); n != nil && isGalene(n.Obj().Pkg()) {
							rn = n
						}
					}
				}
				if rn == nil || !isGalene(rn.Obj().Pkg()) {
					return nil, f.Sel.Name, false
				}
				iface, _ := rn.Underlying().(*types.Interface)
				if iface == nil {
					return nil, f.Sel.Name, false
				}
				for _, n := range w.a.named {
					if _, isI := n.Underlying().(*types.Interface); isI {
						continue
					}
					var impl types.Type
					if types.Implements(n, iface) {
						impl = n
					} else if types.Implements(types.NewPointer(n), iface) {
						impl = types.NewPointer(n)
					} else {
						continue
					}
					ms := types.NewMethodSet(impl)
					if m := ms.Lookup(o.Pkg(), o.Name()); m != nil {
						if mf, ok := m.Obj().(*types.Func); ok {
							callees = append(callees, w.a.funcKey(mf))
						}
					}
				}
				sort.Strings(callees)
				return callees, fmt.Sprintf("%s.%s (interface: %d implementations)", rn.Obj().Name(), o.Name(), len(callees)), false
			}
		}
		if isGalene(o.Pkg()) {
			return []string{w.a.funcKey(o)}, f.Sel.Name, false
		}
		return nil, f.Sel.Name, false
	}
	return nil, fmt.Sprintf("%T", fun), true
}

// analyse runs everything.
func analyse(repo string) (*Facts, error) {
	l, err := load(repo)
	if err != nil {
		return nil, err
	}
	facts := &Facts{Repo: repo, Fns: map[string]*Fn{}}
	facts.LoadErrs = l.errs
	a := &analyser{l: l, facts: facts, fieldName: map[*types.Var]string{}, fieldOwner: map[*types.Var]string{},
		fieldOwnerQ: map[*types.Var]string{}, typeNames: map[string]int{}, paramBind: map[string][]string{},
		fnOfObj: map[*types.Func]string{}, litCount: map[string]int{}, localFunc: map[*types.Var]string{},
		paramOf: map[*types.Var]string{}, litKeys: map[*ast.FuncLit]string{}, implMethods: map[*types.Func]bool{},
		bodyOf: map[string]*fnBody{}}
	var paths []string
	for p := range l.infos {
		paths = append(paths, p)
	}
	sort.Strings(paths)
	// named types, fields
	for _, p := range paths {
		scope := l.pkgs[p].Scope()
		for _, name := range scope.Names() {
			switch o := scope.Lookup(name).(type) {
			case *types.TypeName:
				if n, ok := o.Type().(*types.Named); ok {
					a.named = append(a.named, n)
					a.typeNames[name]++
				}
			}
		}
	}
	for _, p := range paths {
		scope := l.pkgs[p].Scope()
		for _, name := range scope.Names() {
			switch o := scope.Lookup(name).(type) {
			case *types.TypeName:
				if n, ok := o.Type().(*types.Named); ok {
					if st, ok := n.Underlying().(*types.Struct); ok {
						for i := 0; i < st.NumFields(); i++ {
							f := st.Field(i)
							a.fieldOwner[f] = a.typeLabel(n)
							a.fieldOwnerQ[f] = shortPkg(o.Pkg()) + "." + name
						}
					}
				}
			case *types.Var:
				if st, ok := o.Type().(*types.Struct); ok { // package variable of anonymous struct type
					for i := 0; i < st.NumFields(); i++ {
						f := st.Field(i)
						a.fieldOwner[f] = name
						a.fieldOwnerQ[f] = shortPkg(o.Pkg()) + "." + name
					}
				}
			}
		}
	}
	// which methods implement a galene interface (entry points through dynamic dispatch)
	for _, in := range a.named {
		iface, ok := in.Underlying().(*types.Interface)
		if !ok || iface.NumMethods() == 0 {
			continue
		}
		for _, n := range a.named {
			if _, isI := n.Underlying().(*types.Interface); isI {
				continue
			}
			var impl types.Type
			if types.Implements(n, iface) {
				impl = n
			} else if types.Implements(types.NewPointer(n), iface) {
				impl = types.NewPointer(n)
			} else {
				continue
			}
			ms := types.NewMethodSet(impl)
			for i := 0; i < iface.NumMethods(); i++ {
				im := iface.Method(i)
				if m := ms.Lookup(im.Pkg(), im.Name()); m != nil {
					if mf, ok := m.Obj().(*types.Func); ok {
						a.implMethods[mf.Origin()] = true
					}
				}
			}
		}
	}
	// pass 1: create Fn records for declarations and literals (keys must exist before bodies are walked)
	type body = fnBody
	var bodies []body
	for _, p := range paths {
		info := l.infos[p]
		for _, file := range l.files[p] {
			for _, d := range file.Decls {
				fd, ok := d.(*ast.FuncDecl)
				if !ok || fd.Body == nil {
					continue
				}
				obj, _ := info.Defs[fd.Name].(*types.Func)
				if obj == nil {
					continue
				}
				key := a.funcKey(obj)
				fn := &Fn{Key: key, Pkg: shortPkg(obj.Pkg()), obj: obj}
				if _, dup := facts.Fns[key]; dup { // init functions etc.
					key = fmt.Sprintf("%s@%s", key, a.pos(fd.Pos()))
					fn.Key = key
				}
				if ast.IsExported(fd.Name.Name) {
					fn.Root = "exported"
				} else if fd.Name.Name == "main" || fd.Name.Name == "init" {
					fn.Root = fd.Name.Name
				} else if a.implMethods[obj] {
					fn.Root = "implements an interface method"
				}
				facts.Fns[key] = fn
				sig := obj.Type().(*types.Signature)
				for i := 0; i < sig.Params().Len(); i++ {
					a.paramOf[sig.Params().At(i)] = fmt.Sprintf("%s#param%d", key, i)
				}
				bodies = append(bodies, body{fn, fd.Body, info, l.pkgs[p]})
				a.bodyOf[key] = &bodies[len(bodies)-1]
				// literals inside, in source order; nested literals get nested keys
				var visit func(n ast.Node, parent string)
				visit = func(n ast.Node, parent string) {
					ast.Inspect(n, func(m ast.Node) bool {
						lit, ok := m.(*ast.FuncLit)
						if !ok || m == n {
							return true
						}
						a.litCount[parent]++
						lk := fmt.Sprintf("%s$%d", parent, a.litCount[parent])
						lf := &Fn{Key: lk, Pkg: fn.Pkg, Literal: true}
						facts.Fns[lk] = lf
						a.litKeys[lit] = lk
						if tv, ok := info.Types[lit]; ok {
							if sg, ok := tv.Type.(*types.Signature); ok {
								for i := 0; i < sg.Params().Len(); i++ {
									a.paramOf[sg.Params().At(i)] = fmt.Sprintf("%s#param%d", lk, i)
								}
							}
						}
						bodies = append(bodies, body{lf, lit.Body, info, l.pkgs[p]})
						visit(lit.Body, lk)
						return false
					})
				}
				visit(fd.Body, key)
			}
		}
	}
	// pass 2: walk bodies
	for _, b := range bodies {
		w := &walker{a: a, fn: b.fn, info: b.info, pkg: b.pkg, st: &lockState{may: map[string]bool{}, must: map[string]bool{}}}
		w.block(b.body.List)
	}
	// whole-body locking of methods (C05 relies on it for packetcache.Cache)
	for _, p := range paths {
		info := l.infos[p]
		for _, file := range l.files[p] {
			for _, d := range file.Decls {
				fd, ok := d.(*ast.FuncDecl)
				if !ok || fd.Body == nil || fd.Recv == nil {
					continue
				}
				obj, _ := info.Defs[fd.Name].(*types.Func)
				if obj == nil {
					continue
				}
				fn := facts.Fns[a.funcKey(obj)]
				if fn == nil || len(fd.Body.List) < 2 {
					continue
				}
				w := &walker{a: a, fn: &Fn{}, info: info}
				es, ok1 := fd.Body.List[0].(*ast.ExprStmt)
				ds, ok2 := fd.Body.List[1].(*ast.DeferStmt)
				if !ok1 || !ok2 {
					continue
				}
				c1, ok := es.X.(*ast.CallExpr)
				if !ok {
					continue
				}
				op1, l1, k1 := w.mutexCall(c1)
				op2, l2, k2 := w.mutexCall(ds.Call)
				if k1 && k2 && op1 == "lock" && op2 == "unlock" && l1 == l2 && l1 != "" {
					// and nothing in the rest of the body unlocks it
					clean := true
					ast.Inspect(&ast.BlockStmt{List: fd.Body.List[2:]}, func(n ast.Node) bool {
						if c, ok := n.(*ast.CallExpr); ok {
							if op, ll, k := w.mutexCall(c); k && ll == l1 && op != "" {
								clean = false
							}
						}
						return true
					})
					if clean {
						fn.WholeBody = "locked:" + l1
					}
				}
			}
		}
	}
	// bind parameter calls
	for _, fn := range facts.Fns {
		for i := range fn.Calls {
			c := &fn.Calls[i]
			var out []string
			for _, callee := range c.Callees {
				if strings.Contains(callee, "#param") {
					bound := a.paramBind[callee]
					if len(bound) == 0 {
						// a function parameter nobody in galene binds: called from outside
						continue
					}
					out = append(out, bound...)
				} else {
					out = append(out, callee)
				}
			}
			c.Callees = out
		}
	}
	for k := range facts.Fns {
		facts.Order = append(facts.Order, k)
	}
	sort.Strings(facts.Order)
	derive(facts)
	facts.ChanUses, facts.ChanImpl = chanUses(a)
	return facts, nil
}

// derive closes the per-function facts over calls.
func derive(facts *Facts) {
	// nested parameter bindings (a bound key may itself be a parameter key): resolve to a fixpoint
	// callers
	hasCaller := map[string]bool{}
	for _, k := range facts.Order {
		for _, c := range facts.Fns[k].Calls {
			for _, callee := range c.Callees {
				hasCaller[callee] = true
			}
		}
	}
	for _, k := range facts.Order {
		fn := facts.Fns[k]
		if fn.Root == "" && !hasCaller[k] {
			fn.Root = "no caller in galene"
		}
		for _, u := range fn.Unknowns {
			if factPackages[fn.Pkg] {
				facts.Unknowns = append(facts.Unknowns, k+": "+u)
			}
		}
	}
	// acquiresAll: fixpoint
	acq := map[string]map[string][]string{}
	for _, k := range facts.Order {
		acq[k] = map[string][]string{}
		for _, a := range facts.Fns[k].Acquires {
			if _, ok := acq[k][a.Lock]; !ok {
				acq[k][a.Lock] = []string{k}
			}
		}
	}
	for changed := true; changed; {
		changed = false
		for _, k := range facts.Order {
			for _, c := range facts.Fns[k].Calls {
				if c.Go {
					continue
				}
				for _, callee := range c.Callees {
					for lock, chain := range acq[callee] {
						if old, ok := acq[k][lock]; !ok || len(old) > len(chain)+1 {
							acq[k][lock] = append([]string{k}, chain...)
							changed = true
						}
					}
				}
			}
		}
	}
	facts.AcqAll = acq
	// edges
	seen := map[string]bool{}
	addEdge := func(from, to, via string) {
		key := from + "\x00" + to
		if seen[key] {
			return
		}
		seen[key] = true
		facts.Edges = append(facts.Edges, Edge{from, to, via})
	}
	for _, k := range facts.Order {
		fn := facts.Fns[k]
		for _, a := range fn.Acquires {
			for _, h := range a.HeldMay {
				addEdge(h, a.Lock, fmt.Sprintf("%s@%s", k, a.Pos))
			}
		}
		for _, c := range fn.Calls {
			if c.Go || len(c.HeldMay) == 0 {
				continue
			}
			for _, callee := range c.Callees {
				var locks []string
				for lock := range acq[callee] {
					locks = append(locks, lock)
				}
				sort.Strings(locks)
				for _, lock := range locks {
					for _, h := range c.HeldMay {
						addEdge(h, lock, fmt.Sprintf("%s@%s>%s", k, c.Pos, strings.Join(acq[callee][lock], ">")))
					}
				}
			}
		}
	}
	sort.Slice(facts.Edges, func(i, j int) bool {
		if facts.Edges[i].From != facts.Edges[j].From {
			return facts.Edges[i].From < facts.Edges[j].From
		}
		return facts.Edges[i].To < facts.Edges[j].To
	})
	// needs: fixpoint
	needs := map[string]map[string]bool{}
	for _, k := range facts.Order {
		needs[k] = map[string]bool{}
		for _, a := range facts.Fns[k].Accesses {
			if !contains(a.HeldMust, a.Guard) {
				needs[k][a.Guard] = true
			}
		}
	}
	for changed := true; changed; {
		changed = false
		for _, k := range facts.Order {
			for _, c := range facts.Fns[k].Calls {
				for _, callee := range c.Callees {
					if c.Go || facts.Fns[callee].Root != "" {
						// an entry point must need nothing; it is reported itself, its callers do not inherit
						continue
					}
					for lock := range needs[callee] {
						if !contains(c.HeldMust, lock) {
							if !needs[k][lock] {
								needs[k][lock] = true
								changed = true
							}
						}
					}
				}
			}
		}
	}
	facts.Needs = needs
	// violations: roots with non-empty needs
	for _, k := range facts.Order {
		fn := facts.Fns[k]
		if fn.Root == "" || len(needs[k]) == 0 {
			continue
		}
		for _, lock := range keys(needs[k]) {
			v := Violation{Root: k, Lock: lock}
			fields := map[string]bool{}
			via := map[string]bool{}
			visited := map[string]bool{}
			var lines []string
			var visit func(f string)
			visit = func(f string) {
				if visited[f] {
					return
				}
				visited[f] = true
				for _, a := range facts.Fns[f].Accesses {
					if a.Guard == lock {
						lines = append(lines, accessLine(f, a))
						if !contains(a.HeldMust, lock) {
							fields[a.Field] = true
							if f != k {
								via[f] = true
							}
						}
					}
				}
				for _, c := range facts.Fns[f].Calls {
					if c.Go {
						continue
					}
					for _, callee := range c.Callees {
						if needs[callee][lock] && facts.Fns[callee].Root == "" {
							lines = append(lines, callLine(f, callee, c))
							if !contains(c.HeldMust, lock) {
								visit(callee)
							}
						}
					}
				}
			}
			visit(k)
			v.Fields = keys(fields)
			v.Via = keys(via)
			v.Facts = dedupe(lines)
			facts.Viol = append(facts.Viol, v)
		}
	}
	// cache methods
	for _, k := range facts.Order {
		fn := facts.Fns[k]
		if fn.obj == nil || fn.Pkg != "packetcache" || !fn.obj.Exported() || strings.Contains(k, "[") {
			continue
		}
		sig := fn.obj.Type().(*types.Signature)
		if sig.Recv() == nil {
			continue
		}
		if n := derefNamed(sig.Recv().Type()); n == nil || n.Obj().Name() != "Cache" {
			continue
		}
		facts.CacheM = append(facts.CacheM, MethodFact{Name: k, Locked: !needs[k]["Cache.mu"] && len(acq[k]) > 0 && contains(directLocks(fn), "Cache.mu"),
			WholeBody: fn.WholeBody == "locked:Cache.mu"})
	}
}

func dedupe(xs []string) []string {
	seen := map[string]bool{}
	var out []string
	for _, x := range xs {
		if !seen[x] {
			seen[x] = true
			out = append(out, x)
		}
	}
	return out
}

func contains(xs []string, x string) bool {
	for _, y := range xs {
		if y == x {
			return true
		}
	}
	return false
}

func listTok(xs []string) string {
	if len(xs) == 0 {
		return "-"
	}
	return strings.Join(xs, ",")
}

func rw(write bool) string {
	if write {
		return "w"
	}
	return "r"
}

func accessLine(f string, a Access) string {
	return fmt.Sprintf("access %s %s %s %s %s", f, a.Field, rw(a.Write), a.Guard, listTok(a.HeldMust))
}

func callLine(f, callee string, c Call) string {
	return fmt.Sprintf("call %s %s %s", f, callee, listTok(c.HeldMust))
}
