// Engine `unbounded`: the real unbounded.Channel (C13, part a).
//
// Sequential differential (queue length and wakeup slot observed through a shim):
//
//	new                 =>
//	put p v             => q=<queue length> s=<slot 0|1>          ch.Put(p<<32|v)
//	recv                => 0|1 q=.. s=..                           non-blocking receive from ch.Ch
//	get                 => <p:v,p:v,...|-> q=.. s=..               ch.Get()
//
// Concurrent run on the real code (any number of producers, one consumer that
// alternates <-ch.Ch / ch.Get() exactly like webClient's loop):
//
//	conc nprod nper yield => ok | bad:<what>     every value exactly once, in order per producer;
//	                                               bad:stuck if the consumer is still waiting 1 s after
//	                                               the last Put returned (lost wakeup)
package main

import (
	"fmt"
	"runtime"
	"strings"
	"sync"
	"time"

	"github.com/jech/galene/unbounded"
	"github.com/jech/galene/zzverif/common"
)

type eng struct {
	ch *unbounded.Channel[uint64]
}

func (e *eng) Reset() { e.ch = unbounded.New[uint64]() }

func (e *eng) state() string {
	q, s := unbounded.VerifState(e.ch)
	return fmt.Sprintf("q=%d s=%d", q, s)
}

func (e *eng) Exec(op []string) string {
	a := func(i int) int { return common.Atoi(op[i]) }
	switch op[0] {
	case "new":
		e.ch = unbounded.New[uint64]()
		return ""
	case "put":
		e.ch.Put(uint64(a(1))<<32 | uint64(a(2)))
		return e.state()
	case "recv":
		select {
		case <-e.ch.Ch:
			return "1 " + e.state()
		default:
			return "0 " + e.state()
		}
	case "get":
		vs := e.ch.Get()
		ss := make([]string, len(vs))
		for i, v := range vs {
			ss[i] = fmt.Sprintf("%d:%d", v>>32, v&0xFFFFFFFF)
		}
		r := "-"
		if len(ss) > 0 {
			r = strings.Join(ss, ",")
		}
		return r + " " + e.state()
	case "conc":
		return conc(a(1), a(2), a(3))
	}
	panic("unknown op " + op[0])
}

// conc: nprod producers put 0..nper-1 each; one consumer alternates <-Ch / Get.
func conc(nprod, nper, yield int) string {
	ch := unbounded.New[uint64]()
	total := nprod * nper
	next := make([]uint64, nprod)
	var bad string
	done := make(chan struct{})
	go func() {
		defer close(done)
		got := 0
		for got < total {
			<-ch.Ch
			if yield&2 != 0 {
				runtime.Gosched()
			}
			for _, v := range ch.Get() {
				p, k := int(v>>32), v&0xFFFFFFFF
				if p >= nprod {
					bad = fmt.Sprintf("bad:alien-value-%d", v)
					return
				}
				if k != next[p] {
					if k < next[p] {
						bad = fmt.Sprintf("bad:producer-%d-value-%d-delivered-twice", p, k)
					} else {
						bad = fmt.Sprintf("bad:producer-%d-value-%d-lost-or-reordered-got-%d", p, next[p], k)
					}
					return
				}
				next[p]++
				got++
			}
		}
	}()
	var wg sync.WaitGroup
	for p := 0; p < nprod; p++ {
		wg.Add(1)
		go func(p int) {
			defer wg.Done()
			for k := 0; k < nper; k++ {
				ch.Put(uint64(p)<<32 | uint64(k))
				if yield&1 != 0 && k%3 == 0 {
					runtime.Gosched()
				}
			}
		}(p)
	}
	wg.Wait()
	select {
	case <-done:
	case <-time.After(time.Second):
		q, s := unbounded.VerifState(ch)
		return fmt.Sprintf("bad:stuck-consumer-waiting-with-q=%d-s=%d", q, s)
	}
	if bad != "" {
		return bad
	}
	if q, _ := unbounded.VerifState(ch); q != 0 {
		return fmt.Sprintf("bad:%d-left-in-queue", q)
	}
	// a stale wakeup token may remain (s=1 with an empty queue): allowed, Get then returns nothing
	return "ok"
}

func gen(t *common.Trace, e common.Engine, r *common.Rng, thorough bool) {
	r = common.NewRng(r.U64())
	ncases, nconc := 1500, 60
	if thorough {
		ncases, nconc = 20000, 1500
	}
	failures := 0
	for ci := 0; ci < nconc; ci++ {
		t.Case(fmt.Sprintf("conc%d", ci))
		e.Reset()
		nprod := common.Pick(r, 1, 2, 2, 3, 4, 8, 16)
		nper := common.Pick(r, 1, 2, 10, 100, 1000, 3000)
		res := common.Do(t, e, fmt.Sprintf("conc %d %d %d", nprod, nper, r.Intn(4)))
		t.Count("conc:" + strings.SplitN(res, "-", 2)[0])
		if res != "ok" {
			if failures++; failures >= 3 {
				break // every further run would wait for its timeout too
			}
		}
	}
	for ci := 0; ci < ncases; ci++ {
		t.Case(fmt.Sprint(ci))
		e.Reset()
		common.Do(t, e, "new")
		ctr := make([]int, 4)
		n := r.Range(5, 60)
		wPut := common.Pick(r, 30, 50, 70)
		for i := 0; i < n; i++ {
			switch r.Weighted(wPut, 25, 25) {
			case 0:
				p := r.Intn(4)
				common.Do(t, e, fmt.Sprintf("put %d %d", p, ctr[p]))
				ctr[p]++
			case 1:
				res := common.Do(t, e, "recv")
				t.Count("recv:" + res[:1])
				if res[0] == '1' && r.Intn(4) != 0 {
					res = common.Do(t, e, "get")
				}
			case 2:
				res := common.Do(t, e, "get")
				if strings.HasPrefix(res, "-") {
					t.Count("get:empty")
				} else {
					t.Count("get:nonempty")
				}
			}
		}
		common.Do(t, e, "get")
	}
}

func main() { common.Main(&eng{}, gen) }
