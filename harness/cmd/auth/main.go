// Correspondence harness for engine `auth` (C08: password login and granted
// permissions).  Ops and results are documented in
// lean/GaleneVerif/Engine/Auth.lean.
//
// This package is `package main` and, through the REPOFILES overlay entry,
// also contains the unmodified galenectl/galenectl.go and galenectl/flag.go of
// the tree under test: galenectl is a `package main`, so the only way to call
// its real (unexported) makePassword is to compile its source into this
// program.  galenectl's own main() is never reached: init() below runs the
// harness and exits.  All identifiers here are prefixed vf to stay clear of
// galenectl's.
package main

import (
	"bytes"
	"crypto/sha256"
	"encoding/base64"
	"encoding/hex"
	"encoding/json"
	"errors"
	"fmt"
	"io"
	"log"
	"os"
	"path/filepath"
	"sort"
	"strconv"
	"strings"

	"golang.org/x/crypto/bcrypt"
	"golang.org/x/crypto/pbkdf2"

	"github.com/jech/galene/group"
	"github.com/jech/galene/rtpconn"
	"github.com/jech/galene/zzverif/common"
)

func init() {
	if len(os.Args) >= 2 && (os.Args[1] == "gen" || os.Args[1] == "replay") {
		log.SetOutput(io.Discard)
		dir, err := os.MkdirTemp("", "verif-auth-")
		if err != nil {
			fmt.Fprintln(os.Stderr, err)
			os.Exit(2)
		}
		group.Directory = dir
		e := &vfEng{dir: dir, bcache: map[string]string{}}
		common.Main(e, vfGen)
		e.Reset()
		os.RemoveAll(dir)
		os.Exit(0)
	}
}

// ---------------------------------------------------------------------------
// token helpers (mirrored in Engine/Auth.lean)

const vfGroup = "vg"

func vfSafe(s string) bool {
	if s == "" {
		return false
	}
	for i := 0; i < len(s); i++ {
		c := s[i]
		if !(c >= 'a' && c <= 'z' || c >= 'A' && c <= 'Z' || c >= '0' && c <= '9' || c == '_' || c == '-') {
			return false
		}
	}
	return true
}

// esc: plain if [A-Za-z0-9_-]+, else '%' followed by lowercase hex of the bytes
func vfEsc(s string) string {
	if vfSafe(s) {
		return s
	}
	return "%" + hex.EncodeToString([]byte(s))
}

func vfUnesc(s string) (string, error) {
	if strings.HasPrefix(s, "%") {
		b, err := hex.DecodeString(s[1:])
		return string(b), err
	}
	return s, nil
}

func vfPerms(ps []string) string {
	out := make([]string, len(ps))
	for i, p := range ps {
		out[i] = vfEsc(p)
	}
	return strings.Join(out, " ")
}

func vfJoin(a, b string) string {
	if b == "" {
		return a
	}
	return a + " " + b
}

func vfJStr(s string) string {
	b, _ := json.Marshal(s)
	return string(b)
}

// field token: "~" absent, "@" null, "=<hex>" literal string
func vfField(tok string) (present bool, js string, err error) {
	switch {
	case tok == "~":
		return false, "", nil
	case tok == "@":
		return true, "null", nil
	case strings.HasPrefix(tok, "="):
		defer func() {
			if r := recover(); r != nil {
				err = errors.New("bad hex")
			}
		}()
		return true, vfJStr(string(common.Unhex(tok[1:]))), nil
	}
	return false, "", errors.New("bad field " + tok)
}

func vfFieldString(tok string) string {
	if strings.HasPrefix(tok, "=") {
		return string(common.Unhex(tok[1:]))
	}
	return ""
}

// ---------------------------------------------------------------------------
// engine

type vfEng struct {
	dir     string
	g       *group.Group
	members map[string]*rtpconn.VerifAuthClient
	order   []string
	made    *group.Password
	bcache  map[string]string // cost:clear -> real bcrypt hash (salt is random; results do not depend on it)
}

func (e *vfEng) dropGroup() {
	for _, id := range e.order {
		if m := e.members[id]; m != nil {
			m.Leave()
		}
	}
	e.members = map[string]*rtpconn.VerifAuthClient{}
	e.order = nil
	group.Delete(vfGroup)
	e.g = nil
	os.Remove(filepath.Join(e.dir, vfGroup+".json"))
}

func (e *vfEng) Reset() {
	e.dropGroup()
	e.made = nil
	group.VerifRestoreRoles()
}

func (e *vfEng) bcryptHash(clear []byte, cost int) (string, error) {
	k := strconv.Itoa(cost) + ":" + string(clear)
	if h, ok := e.bcache[k]; ok {
		return h, nil
	}
	h, err := bcrypt.GenerateFromPassword(clear, cost)
	if err != nil {
		return "", err
	}
	e.bcache[k] = string(h)
	return string(h), nil
}

// key token of an object-form password:
//   ~ | @ | =<hex> | P<clearhex>.<keylen>.<mangle> | B<clearhex>.<cost>.<mangle>
func (e *vfEng) keyJSON(tok string, saltTok string, iterTok string) (bool, string, error) {
	if tok == "" {
		return false, "", errors.New("empty key token")
	}
	switch tok[0] {
	case 'P':
		f := strings.Split(tok[1:], ".")
		if len(f) != 3 {
			return false, "", errors.New("bad P key")
		}
		clear := common.Unhex(f[0])
		keylen, err1 := strconv.Atoi(f[1])
		mangle, err2 := strconv.Atoi(f[2])
		if err1 != nil || err2 != nil || keylen < 0 || keylen > 1024 {
			return false, "", errors.New("bad P key")
		}
		salt, err := hex.DecodeString(vfFieldString(saltTok))
		if err != nil {
			salt = nil
		}
		iter := 0
		if iterTok != "~" && iterTok != "@" {
			iter, err = strconv.Atoi(iterTok)
			if err != nil {
				return false, "", err
			}
		}
		if iter > 100000 {
			return false, "", errors.New("iterations too large for the harness")
		}
		key := pbkdf2.Key(clear, salt, iter, keylen, sha256.New)
		if mangle == 4 && len(key) > 0 {
			key[len(key)-1] ^= 1
		}
		hs := hex.EncodeToString(key)
		switch mangle {
		case 1:
			hs = strings.ToUpper(hs)
		case 2:
			if len(hs) > 0 {
				hs = hs[:len(hs)-1]
			}
		case 3:
			if len(hs) > 0 {
				hs = "g" + hs[1:]
			}
		}
		return true, vfJStr(hs), nil
	case 'B':
		f := strings.Split(tok[1:], ".")
		if len(f) != 3 {
			return false, "", errors.New("bad B key")
		}
		clear := common.Unhex(f[0])
		cost, err1 := strconv.Atoi(f[1])
		mangle, err2 := strconv.Atoi(f[2])
		if err1 != nil || err2 != nil || cost < 4 || cost > 6 || len(clear) > 72 {
			return false, "", errors.New("bad B key")
		}
		h, err := e.bcryptHash(clear, cost)
		if err != nil || len(h) != 60 {
			return false, "", errors.New("bcrypt failed")
		}
		switch mangle {
		case 1:
			h = h[:40]
		case 2:
			h = "#" + h[1:]
		case 3:
			h = h[:1] + "3" + h[2:]
		case 4:
			h = h[:4] + "99" + h[6:]
		case 5:
			h = h[:4] + "0x" + h[6:]
		case 6:
			if h[59] == 'A' {
				h = h[:59] + "B"
			} else {
				h = h[:59] + "A"
			}
		}
		return true, vfJStr(h), nil
	}
	return vfField(tok)
}

// password spec: a | n | b | s:<hex> | j:<type>:<hash>:<key>:<salt>:<iter>
func (e *vfEng) pwJSON(spec string) (present bool, js string, err error) {
	defer func() {
		if r := recover(); r != nil {
			err = fmt.Errorf("bad password spec %q", spec)
		}
	}()
	switch {
	case spec == "a":
		return false, "", nil
	case spec == "n":
		return true, "null", nil
	case spec == "b":
		return true, "5", nil
	case strings.HasPrefix(spec, "s:"):
		return true, vfJStr(string(common.Unhex(spec[2:]))), nil
	case strings.HasPrefix(spec, "j:"):
		f := strings.Split(spec[2:], ":")
		if len(f) != 5 {
			return false, "", errors.New("bad object password")
		}
		var parts []string
		for i, name := range []string{"type", "hash"} {
			p, v, err := vfField(f[i])
			if err != nil {
				return false, "", err
			}
			if p {
				parts = append(parts, vfJStr(name)+":"+v)
			}
		}
		p, v, err := e.keyJSON(f[2], f[3], f[4])
		if err != nil {
			return false, "", err
		}
		if p {
			parts = append(parts, `"key":`+v)
		}
		p, v, err = vfField(f[3])
		if err != nil {
			return false, "", err
		}
		if p {
			parts = append(parts, `"salt":`+v)
		}
		switch f[4] {
		case "~":
		case "@":
			parts = append(parts, `"iterations":null`)
		default:
			n, err := strconv.Atoi(f[4])
			if err != nil {
				return false, "", err
			}
			parts = append(parts, `"iterations":`+strconv.Itoa(n))
		}
		return true, "{" + strings.Join(parts, ",") + "}", nil
	}
	return false, "", errors.New("bad password spec")
}

// permissions spec: a | n | b | r:<esc name> | l:<esc>+<esc>...
func vfPermJSON(spec string) (bool, string, error) {
	switch {
	case spec == "a":
		return false, "", nil
	case spec == "n":
		return true, "null", nil
	case spec == "b":
		return true, "5", nil
	case strings.HasPrefix(spec, "r:"):
		s, err := vfUnesc(spec[2:])
		return true, vfJStr(s), err
	case strings.HasPrefix(spec, "l:"):
		var parts []string
		if spec[2:] != "" {
			for _, x := range strings.Split(spec[2:], "+") {
				s, err := vfUnesc(x)
				if err != nil {
					return false, "", err
				}
				parts = append(parts, vfJStr(s))
			}
		}
		return true, "[" + strings.Join(parts, ",") + "]", nil
	}
	return false, "", errors.New("bad permissions spec")
}

// desc <R><T><U> <entry>...   entry = <kind>,<userhex>,<pwspec>,<permspec>
func (e *vfEng) descJSON(op []string) (js string, err error) {
	defer func() {
		if r := recover(); r != nil {
			err = fmt.Errorf("bad desc op: %v", r)
		}
	}()
	if len(op) < 1 || len(op[0]) != 3 {
		return "", errors.New("bad flags")
	}
	var users, opl, presl, otherl []string
	wild := ""
	seen := map[string]bool{}
	for _, ent := range op[1:] {
		f := strings.Split(ent, ",")
		if len(f) != 4 || len(f[0]) != 1 {
			return "", errors.New("bad entry " + ent)
		}
		user := string(common.Unhex(f[1]))
		pwP, pwJ, err := e.pwJSON(f[2])
		if err != nil {
			return "", err
		}
		switch f[0] {
		case "u", "w":
			pmP, pmJ, err := vfPermJSON(f[3])
			if err != nil {
				return "", err
			}
			var parts []string
			if pwP {
				parts = append(parts, `"password":`+pwJ)
			}
			if pmP {
				parts = append(parts, `"permissions":`+pmJ)
			}
			obj := "{" + strings.Join(parts, ",") + "}"
			if f[0] == "u" {
				if seen[user] {
					return "", errors.New("duplicate key in users")
				}
				seen[user] = true
				users = append(users, vfJStr(user)+":"+obj)
			} else {
				if wild != "" {
					return "", errors.New("two wildcard-user entries")
				}
				wild = obj
			}
		case "o", "p", "x":
			var parts []string
			if user != "" {
				parts = append(parts, `"username":`+vfJStr(user))
			}
			if pwP {
				parts = append(parts, `"password":`+pwJ)
			}
			obj := "{" + strings.Join(parts, ",") + "}"
			switch f[0] {
			case "o":
				opl = append(opl, obj)
			case "p":
				presl = append(presl, obj)
			default:
				otherl = append(otherl, obj)
			}
		default:
			return "", errors.New("bad entry kind")
		}
	}
	var parts []string
	if op[0][0] == '1' {
		parts = append(parts, `"allow-recording":true`)
	}
	if op[0][1] == '1' {
		parts = append(parts, `"unrestricted-tokens":true`)
	}
	if len(users) > 0 || op[0][2] == '1' {
		parts = append(parts, `"users":{`+strings.Join(users, ",")+"}")
	}
	if wild != "" {
		parts = append(parts, `"wildcard-user":`+wild)
	}
	if opl != nil {
		parts = append(parts, `"op":[`+strings.Join(opl, ",")+"]")
	}
	if presl != nil {
		parts = append(parts, `"presenter":[`+strings.Join(presl, ",")+"]")
	}
	if otherl != nil {
		parts = append(parts, `"other":[`+strings.Join(otherl, ",")+"]")
	}
	return "{" + strings.Join(parts, ",") + "}", nil
}

func vfErrKind(err error) string {
	if err == group.ErrBadPassword {
		return "badpassword"
	}
	if err == group.ErrNoSuchUsername {
		return "nosuchuser"
	}
	var na *group.NotAuthorisedError
	if errors.As(err, &na) {
		if strings.Contains(err.Error(), "invalid username") {
			return "invalidusername"
		}
		return "notauthorised"
	}
	var ib hex.InvalidByteError
	if errors.As(err, &ib) || errors.Is(err, hex.ErrLength) {
		return "hex"
	}
	var b1 bcrypt.HashVersionTooNewError
	var b2 bcrypt.InvalidHashPrefixError
	var b3 bcrypt.InvalidCostError
	var b4 *strconv.NumError
	var b5 base64.CorruptInputError
	if errors.Is(err, bcrypt.ErrHashTooShort) || errors.As(err, &b1) || errors.As(err, &b2) ||
		errors.As(err, &b3) || errors.As(err, &b4) || errors.As(err, &b5) {
		return "bcrypt"
	}
	if pe, ok := err.(group.ProtocolError); ok {
		if string(pe) == "duplicate client id" {
			return "dupid"
		}
		return "protocol"
	}
	switch err.Error() {
	case "missing key":
		return "missingkey"
	case "unknown hash type":
		return "unknownhash"
	case "unknown password type":
		return "unknowntype"
	case "neither username nor token provided":
		return "neither"
	case "username not provided":
		return "nousername"
	case "client has empty id":
		return "emptyid"
	}
	return "other:" + strings.ReplaceAll(err.Error(), " ", "_")
}

func vfCreds(user, pw string) group.ClientCredentials {
	c := group.ClientCredentials{Password: string(common.Unhex(pw))}
	if user != "~" {
		u := string(common.Unhex(user))
		c.Username = &u
	}
	return c
}

func vfMatchResult(ok bool, err error) string {
	if err != nil {
		return "err:" + vfErrKind(err)
	}
	return common.B2s(ok)
}

func (e *vfEng) Exec(op []string) string {
	switch op[0] {
	case "roles":
		m := group.VerifRoles()
		var names []string
		for k := range m {
			names = append(names, k)
		}
		sort.Strings(names)
		var out []string
		for _, k := range names {
			var ps []string
			for _, p := range m[k] {
				ps = append(ps, vfEsc(p))
			}
			out = append(out, vfEsc(k)+"="+strings.Join(ps, "+"))
		}
		return strings.Join(out, " ")
	case "desc":
		e.dropGroup()
		js, err := e.descJSON(op[1:])
		if err != nil {
			return "badop:" + strings.ReplaceAll(err.Error(), " ", "_")
		}
		err = os.WriteFile(filepath.Join(e.dir, vfGroup+".json"), []byte(js), 0600)
		if err != nil {
			return "badop:write"
		}
		g, err := group.Add(vfGroup, nil)
		if err != nil {
			return "err"
		}
		e.g = g
		return "ok"
	case "login":
		if e.g == nil {
			return "nodesc"
		}
		username, perms, err := e.g.Description().GetPermission(vfGroup, vfCreds(op[1], op[2]))
		if err != nil {
			r := "fail " + vfErrKind(err)
			if username != "" || perms != nil {
				r += " leak " + vfPerms(perms)
			}
			return r
		}
		if op[1] == "~" || username != string(common.Unhex(op[1])) {
			return "ok-wrong-username " + vfEsc(username)
		}
		return vfJoin("ok", vfPerms(perms))
	case "join":
		if e.g == nil {
			return "nodesc"
		}
		id := op[1]
		c := rtpconn.VerifAuthNewClient(id)
		err := c.Join(vfGroup, vfCreds(op[2], op[3]))
		in := common.B2s(e.g.GetClient(id) == c.Client())
		if err != nil {
			return in + " fail " + vfErrKind(err)
		}
		e.members[id] = c
		e.order = append(e.order, id)
		if op[2] == "~" || c.Username() != string(common.Unhex(op[2])) {
			return in + " ok-wrong-username " + vfEsc(c.Username())
		}
		return vfJoin(in+" ok", vfPerms(c.Permissions()))
	case "leave":
		c := e.members[op[1]]
		if c == nil {
			return "nomember"
		}
		c.Leave()
		delete(e.members, op[1])
		return common.B2s(e.g != nil && e.g.GetClient(op[1]) != nil)
	case "mod":
		c := e.members[op[1]]
		if c == nil {
			return "nomember"
		}
		before := vfPerms(c.Permissions())
		err := c.Moderate(op[2])
		r := "ok"
		if err != nil {
			r = "err"
		}
		return vfJoin(vfJoin(r, before)+" /", vfPerms(c.Permissions()))
	case "makepassword":
		// makepassword <alg> <iter> <len> <saltlen> <cost> <pwhex>
		e.made = nil
		pw := string(common.Unhex(op[6]))
		if op[1] == "wildcard" && pw != "" {
			// the real function calls log.Fatalf here, which cannot be observed in-process
			return "fatal"
		}
		iter, length, saltlen, cost := common.Atoi(op[2]), common.Atoi(op[3]), common.Atoi(op[4]), common.Atoi(op[5])
		if length > 4096 || saltlen > 4096 || iter > 100000 || (cost > 6 && cost <= 31) || (op[1] == "bcrypt" && cost < 4) {
			return "badop:too-expensive"
		}
		var p group.Password
		var err error
		panicked := false
		func() {
			defer func() {
				if r := recover(); r != nil {
					panicked = true
				}
			}()
			p, err = makePassword(pw, op[1], iter, length, saltlen, cost)
		}()
		if panicked {
			return "panic"
		}
		if err != nil {
			return "err"
		}
		// the stored form: what galenectl prints and the server later reads
		b, err := json.Marshal(p)
		if err != nil {
			return "marshalerr"
		}
		var q group.Password
		if err := json.Unmarshal(b, &q); err != nil {
			return "unmarshalerr"
		}
		e.made = &q
		h, k := "-", "-"
		if q.Hash != "" {
			h = vfEsc(q.Hash)
		}
		if q.Key != nil && q.Type != "bcrypt" {
			k = strconv.Itoa(len(*q.Key))
		}
		// ... and the first thing the tool's user expects of it: it opens for the password just hashed
		self := vfMatchResult(q.Match(pw))
		return fmt.Sprintf("ok %s %s %s %d %d self=%s", vfEsc(q.Type), h, k, len(q.Salt), q.Iterations, self)
	case "matchmade":
		if e.made == nil {
			return "nomade"
		}
		return vfMatchResult(e.made.Match(string(common.Unhex(op[1]))))
	case "match":
		// match <pwspec> <pwhex>: JSON-decode a Password, then Match
		present, js, err := e.pwJSON(op[1])
		if err != nil {
			return "badop"
		}
		var p group.Password
		if present {
			if err := json.Unmarshal([]byte(js), &p); err != nil {
				return "jsonerr"
			}
		}
		return vfMatchResult(p.Match(string(common.Unhex(op[2]))))
	case "valid":
		return common.B2s(group.VerifValidUsername(string(common.Unhex(op[1]))))
	case "ctc":
		return common.B2s(group.ConstantTimeCompare(string(common.Unhex(op[1])), string(common.Unhex(op[2]))))
	}
	return "badop"
}

// ---------------------------------------------------------------------------
// generator

type vfGenPw struct {
	spec     string
	clear    []byte
	hasClear bool
}

type vfGenUser struct {
	name string
	pw   vfGenPw
}

var vfNames = []string{"alice", "bob", "carol", "dave", "a/b", "x y", "Ünï", "jch@work", "a.b", "..."}
var vfOddNames = []string{"", "..", ".", "a/../b", "a//b", "/abs", "trail/", "back\\slash", "a/./b", "a/..", "../x", "a/b/c", ".hidden", "a\\..\\b", "\xff\xfe"}
var vfPws = []string{"", "secret", "Secret", "secret ", "s", "pw1", "pässwörd", "0", "null", "ab", "ab\x00ab", "hunter2", "correct horse"}
var vfPermWords = []string{"op", "present", "message", "caption", "token", "record", "admin", "system", "Op", "", "a b"}
var vfRoleNames = []string{"op", "present", "message", "observe", "caption", "admin"}

func vfH(s string) string { return common.Hex([]byte(s)) }

func vfLit(s string) string { return "=" + vfH(s) }

func vfGenClear(r *common.Rng) string {
	switch r.Weighted(70, 10, 6, 6, 6, 2) {
	case 0:
		return common.Pick(r, vfPws...)
	case 1:
		n := r.Range(1, 12)
		b := make([]byte, n)
		for i := range b {
			b[i] = byte('a' + r.Intn(4))
		}
		return string(b)
	case 2:
		if r.Intn(3) == 0 {
			return strings.Repeat("ab", 150) // longer than 256 bytes
		}
		return strings.Repeat("a", 71)
	case 3:
		return strings.Repeat("a", 72)
	case 4:
		return strings.Repeat("a", 70) + "b"
	default:
		return strings.Repeat("é", 36)
	}
}

func vfSaltHex(r *common.Rng) string {
	n := common.Pick(r, 0, 1, 8, 8, 8, 16)
	b := make([]byte, n)
	for i := range b {
		b[i] = byte(r.Intn(256))
	}
	s := hex.EncodeToString(b)
	if r.Intn(6) == 0 {
		s = strings.ToUpper(s)
	}
	return s
}

// a password spec, with the cleartext that is supposed to open it (if any)
func vfGenPwSpec(t *common.Trace, r *common.Rng, wildcardish bool) vfGenPw {
	w := []int{350, 80, 150, 80, 60, 20, 30, 40, 185, 5}
	if wildcardish {
		w = []int{300, 50, 100, 50, 50, 20, 30, 250, 145, 5}
	}
	clear := vfGenClear(r)
	switch r.Weighted(w...) {
	case 0:
		t.Count("pw:string")
		return vfGenPw{"s:" + vfH(clear), []byte(clear), true}
	case 1:
		t.Count("pw:plain-object")
		return vfGenPw{"j:" + vfLit("plain") + ":~:" + vfLit(clear) + ":~:~", []byte(clear), true}
	case 2:
		t.Count("pw:pbkdf2")
		iter := common.Pick(r, 1, 1, 2, 3, 0, 7)
		keylen := common.Pick(r, 32, 32, 16, 8, 20, 33)
		mangle := common.Pick(r, 0, 0, 0, 0, 1)
		it := strconv.Itoa(iter)
		if iter == 0 && r.Bool() {
			it = "~"
		}
		return vfGenPw{fmt.Sprintf("j:%s:%s:P%s.%d.%d:%s:%s", vfLit("pbkdf2"), vfLit("sha-256"), vfH(clear), keylen, mangle,
			vfLit(vfSaltHex(r)), it), []byte(clear), true}
	case 3:
		if len(clear) > 72 {
			clear = clear[:72]
		}
		t.Count("pw:bcrypt")
		return vfGenPw{fmt.Sprintf("j:%s:~:B%s.4.0:~:~", vfLit("bcrypt"), vfH(clear)), []byte(clear), true}
	case 4:
		t.Count("pw:absent")
		return vfGenPw{spec: "a"}
	case 5:
		t.Count("pw:null")
		return vfGenPw{spec: "n"}
	case 6:
		t.Count("pw:empty-type")
		return vfGenPw{spec: common.Pick(r, "j:~:~:~:~:~", "j:"+vfLit("")+":~:"+vfLit(clear)+":~:~", "j:@:@:@:@:@", "j:~:"+vfLit("sha-256")+":"+vfLit("00")+":~:1")}
	case 7:
		t.Count("pw:wildcard-type")
		return vfGenPw{spec: common.Pick(r, "j:"+vfLit("wildcard")+":~:~:~:~", "j:"+vfLit("wildcard")+":~:"+vfLit(clear)+":~:~")}
	case 8:
		t.Count("pw:malformed")
		pb, sh := vfLit("pbkdf2"), vfLit("sha-256")
		salt := vfLit(vfSaltHex(r))
		ch := vfH(clear)
		bclear := clear
		if len(bclear) > 72 {
			bclear = bclear[:72]
		}
		bh := vfH(bclear)
		specs := []string{
			"j:" + vfLit("plain") + ":~:~:~:~",                                    // plain, missing key
			"j:" + vfLit("plain") + ":~:@:~:~",                                    // plain, null key
			"j:" + pb + ":" + sh + ":~:" + salt + ":1",                            // pbkdf2, missing key
			"j:" + pb + ":" + sh + ":P" + ch + ".32.2:" + salt + ":1",             // odd-length key
			"j:" + pb + ":" + sh + ":P" + ch + ".32.3:" + salt + ":1",             // invalid hex digit in key
			"j:" + pb + ":" + sh + ":P" + ch + ".32.4:" + salt + ":1",             // wrong key
			"j:" + pb + ":" + sh + ":P" + ch + ".32.0:" + vfLit("zz") + ":1",      // bad salt
			"j:" + pb + ":" + sh + ":P" + ch + ".32.0:" + vfLit("abc") + ":1",     // odd salt
			"j:" + pb + ":" + vfLit("sha-1") + ":P" + ch + ".32.0:" + salt + ":1", // unknown hash
			"j:" + pb + ":~:P" + ch + ".32.0:" + salt + ":1",                      // missing hash
			"j:" + pb + ":" + sh + ":P" + ch + ".0.0:" + salt + ":1",              // empty key: matches everything
			"j:" + pb + ":" + sh + ":" + vfLit(clear) + ":" + salt + ":1",         // key is the cleartext, not hex (usually)
			"j:" + vfLit("md5") + ":~:" + vfLit(clear) + ":~:~",                   // unknown type
			"j:" + vfLit("Plain") + ":~:" + vfLit(clear) + ":~:~",                 // unknown type (case)
			"j:" + vfLit("bcrypt") + ":~:~:~:~",                                   // bcrypt, missing key
			"j:" + vfLit("bcrypt") + ":~:" + vfLit(clear) + ":~:~",                // bcrypt, key is not a hash
			"j:" + vfLit("bcrypt") + ":~:B" + bh + ".4.1:~:~",                     // truncated hash
			"j:" + vfLit("bcrypt") + ":~:B" + bh + ".4.2:~:~",                     // bad prefix
			"j:" + vfLit("bcrypt") + ":~:B" + bh + ".4.3:~:~",                     // version too new
			"j:" + vfLit("bcrypt") + ":~:B" + bh + ".4.4:~:~",                     // bad cost
			"j:" + vfLit("bcrypt") + ":~:B" + bh + ".4.5:~:~",                     // non-numeric cost
			"j:" + vfLit("bcrypt") + ":~:B" + bh + ".4.6:~:~",                     // wrong hash
		}
		i := r.Intn(len(specs))
		s := specs[i]
		if i == 11 {
			// a literal pbkdf2 key must not be short valid hex (a real preimage could exist by chance)
			if _, err := hex.DecodeString(clear); err == nil {
				s = specs[2]
			}
		}
		// the cleartext is remembered so that logins try it against the broken record
		return vfGenPw{s, []byte(clear), true}
	default:
		t.Count("pw:bad-json")
		return vfGenPw{spec: "b"}
	}
}

func vfGenPermSpec(t *common.Trace, r *common.Rng) string {
	switch r.Weighted(600, 260, 50, 30, 15, 5) {
	case 0:
		n := vfRoleNames[r.Weighted(30, 20, 8, 8, 5, 5)]
		t.Count("perm:role-" + n)
		return "r:" + vfEsc(n)
	case 1:
		t.Count("perm:raw")
		n := r.Weighted(2, 3, 4, 3, 2, 1)
		var ps []string
		for i := 0; i < n; i++ {
			ps = append(ps, vfEsc(vfPermWords[r.Weighted(6, 6, 5, 3, 3, 3, 2, 1, 1, 1, 1)]))
		}
		return "l:" + strings.Join(ps, "+")
	case 2:
		t.Count("perm:absent")
		return "a"
	case 3:
		t.Count("perm:null")
		return "n"
	case 4:
		t.Count("perm:unknown-role")
		return "r:" + vfEsc(common.Pick(r, "bogus", "Op", "", "operator", "record"))
	default:
		t.Count("perm:bad-json")
		return "b"
	}
}

type vfGenDesc struct {
	op      string
	users   []vfGenUser // every named entry (users map and obsolete lists)
	clears  [][]byte    // every cleartext in the description
	hasWild bool
}

func vfGenDescription(t *common.Trace, r *common.Rng) vfGenDesc {
	var d vfGenDesc
	flags := common.B2s(r.Bool()) + common.B2s(r.Bool()) + common.B2s(r.Intn(4) == 0)
	t.Count("flags:" + flags[:2])
	toks := []string{"desc", flags}
	used := map[string]bool{}
	nusers := r.Weighted(1, 3, 4, 3, 2)
	if vfWide && r.Intn(3) == 0 {
		nusers = r.Range(4, 8)
	}
	for i := 0; i < nusers; i++ {
		var name string
		if r.Intn(8) == 0 {
			name = vfOddNames[r.Intn(len(vfOddNames)-1)] // valid UTF-8 only in stored names
		} else {
			name = common.Pick(r, vfNames...)
		}
		if used[name] {
			continue
		}
		used[name] = true
		pw := vfGenPwSpec(t, r, false)
		d.users = append(d.users, vfGenUser{name, pw})
		if pw.hasClear {
			d.clears = append(d.clears, pw.clear)
		}
		toks = append(toks, fmt.Sprintf("u,%s,%s,%s", vfH(name), pw.spec, vfGenPermSpec(t, r)))
	}
	if r.Bool() {
		pw := vfGenPwSpec(t, r, true)
		d.hasWild = true
		if pw.hasClear {
			d.clears = append(d.clears, pw.clear)
		}
		toks = append(toks, fmt.Sprintf("w,-,%s,%s", pw.spec, vfGenPermSpec(t, r)))
		t.Count("desc:wildcard-user")
	}
	if r.Intn(7) == 0 {
		t.Count("desc:obsolete-fields")
		for _, k := range []string{"o", "p", "x"} {
			n := r.Weighted(2, 3, 2)
			for i := 0; i < n; i++ {
				name := common.Pick(r, "", "alice", "bob", "erin", "frank", "a/b")
				var pw vfGenPw
				switch r.Weighted(4, 5, 1) {
				case 0:
					pw = vfGenPw{spec: common.Pick(r, "a", "a", "n")}
				case 1:
					c := vfGenClear(r)
					pw = vfGenPw{"s:" + vfH(c), []byte(c), true}
				default:
					pw = vfGenPwSpec(t, r, false)
				}
				if pw.hasClear {
					d.clears = append(d.clears, pw.clear)
				}
				if name != "" {
					d.users = append(d.users, vfGenUser{name, pw})
				}
				toks = append(toks, fmt.Sprintf("%s,%s,%s,-", k, vfH(name), pw.spec))
			}
		}
	}
	d.op = strings.Join(toks, " ")
	return d
}

func vfNearMiss(r *common.Rng, c []byte) []byte {
	b := append([]byte(nil), c...)
	switch r.Intn(9) {
	case 6: // a length that differs by a multiple of 256, padded with NULs (what a zero-filled comparison buffer holds)
		return append(b, make([]byte, 256*r.Range(1, 3))...)
	case 7: // ... or with something else
		return append(b, bytes.Repeat([]byte{'x'}, 256)...)
	case 8: // a prefix that is shorter by a multiple of 256 (long configured passwords)
		if len(b) > 256 {
			return b[:len(b)-256]
		}
		return append(b, make([]byte, 255)...)
	case 0:
		return append(b, 'x')
	case 1:
		if len(b) > 0 {
			return b[:len(b)-1]
		}
		return []byte("x")
	case 2:
		if len(b) > 0 {
			b[0] ^= 0x20
		}
		return b
	case 3:
		return append([]byte(" "), b...)
	case 4:
		return append(b, 0)
	default:
		if len(b) > 0 {
			b[len(b)-1]++
		}
		return b
	}
}

func vfGenCreds(t *common.Trace, r *common.Rng, d *vfGenDesc) (string, string) {
	var user string
	var own *vfGenPw
	nilUser := false
	switch {
	case len(d.users) > 0 && r.Intn(100) < 62:
		u := d.users[r.Intn(len(d.users))]
		user, own = u.name, &u.pw
		t.Count("login:named-entry")
	default:
		switch r.Weighted(45, 38, 3, 14) {
		case 0:
			user = common.Pick(r, vfNames...)
			t.Count("login:pool-name")
		case 1:
			user = common.Pick(r, vfOddNames...)
			t.Count("login:odd-name")
		case 2:
			nilUser = true
			t.Count("login:nil-username")
		default:
			user = common.Pick(r, "erin", "frank", "zed", "Alice", "alice ")
			t.Count("login:unknown-name")
		}
	}
	var pw []byte
	k := r.Weighted(40, 22, 16, 8, 14)
	if k == 0 && (own == nil || !own.hasClear) {
		k = 1
	}
	if k == 1 && len(d.clears) == 0 {
		k = 4
	}
	switch k {
	case 0:
		pw = own.clear
		t.Count("cred:own-cleartext")
	case 1:
		pw = d.clears[r.Intn(len(d.clears))]
		t.Count("cred:some-cleartext")
	case 2:
		var c []byte
		if own != nil && own.hasClear {
			c = own.clear
		} else if len(d.clears) > 0 {
			c = d.clears[r.Intn(len(d.clears))]
		}
		pw = vfNearMiss(r, c)
		t.Count("cred:near-miss")
	case 3:
		pw = nil
		t.Count("cred:empty")
	default:
		pw = []byte(vfGenClear(r))
		t.Count("cred:random")
	}
	u := vfH(user)
	if nilUser {
		u = "~"
	}
	return u, common.Hex(pw)
}

func vfCountResult(t *common.Trace, kind, res string) {
	f := strings.Fields(res)
	if kind == "join" && len(f) > 0 {
		f = f[1:]
	}
	switch {
	case len(f) >= 1 && f[0] == "ok":
		t.Count(kind + "-result:ok")
	case len(f) >= 2:
		t.Count(kind + "-result:" + f[0] + "-" + f[1])
	default:
		t.Count(kind + "-result:" + res)
	}
}

var vfCaseNo int
var vfWide bool // thorough tier: more users per description, longer histories

func vfCase(t *common.Trace, e common.Engine, kind string) {
	vfCaseNo++
	t.Case(fmt.Sprintf("%s-%d", kind, vfCaseNo))
	e.Reset()
	t.Count("case:" + kind)
}

func vfGenLoginCase(t *common.Trace, e common.Engine, r *common.Rng, moderated bool) {
	if moderated {
		vfCase(t, e, "moderated")
	} else {
		vfCase(t, e, "logins")
	}
	if r.Intn(20) == 0 {
		common.Do(t, e, "roles")
	}
	d := vfGenDescription(t, r)
	res := common.Do(t, e, d.op)
	t.Count("desc-result:" + res)
	n := r.Range(4, 14)
	if vfWide && r.Intn(3) == 0 {
		n = r.Range(14, 40)
	}
	if res != "ok" {
		n = 1
	}
	var members []string
	next := 0
	for i := 0; i < n; i++ {
		if !moderated {
			u, p := vfGenCreds(t, r, &d)
			vfCountResult(t, "login", common.Do(t, e, "login "+u+" "+p))
			continue
		}
		switch k := r.Weighted(35, 30, 10, 25); {
		case k == 0 || (k != 3 && len(members) == 0):
			u, p := vfGenCreds(t, r, &d)
			// moderated cases want successful joins: bias towards the right password
			if r.Intn(3) != 0 && len(d.users) > 0 {
				gu := d.users[r.Intn(len(d.users))]
				if gu.pw.hasClear {
					u, p = vfH(gu.name), common.Hex(gu.pw.clear)
				}
			}
			id := fmt.Sprintf("c%d", next)
			next++
			if len(members) > 0 && r.Intn(15) == 0 {
				id = members[r.Intn(len(members))]
				t.Count("join:duplicate-id")
			}
			res := common.Do(t, e, fmt.Sprintf("join %s %s %s", id, u, p))
			vfCountResult(t, "join", res)
			if strings.HasPrefix(res, "1 ok") {
				members = append(members, id)
			}
		case k == 1:
			id := members[r.Intn(len(members))]
			kind := []string{"unop", "op", "present", "unpresent", "shutup", "unshutup", "bogus"}[r.Weighted(28, 14, 10, 16, 16, 10, 3)]
			t.Count("mod:" + kind)
			common.Do(t, e, "mod "+id+" "+kind)
		case k == 2:
			j := r.Intn(len(members))
			common.Do(t, e, "leave "+members[j])
			members = append(members[:j], members[j+1:]...)
		default:
			u, p := vfGenCreds(t, r, &d)
			vfCountResult(t, "login", common.Do(t, e, "login "+u+" "+p))
		}
	}
}

func vfGenMakeCase(t *common.Trace, e common.Engine, r *common.Rng) {
	vfCase(t, e, "makepassword")
	pw := vfGenClear(r)
	if r.Intn(10) == 0 {
		pw = strings.Repeat("b", r.Range(69, 75))
	}
	var op string
	alg := ""
	switch r.Weighted(45, 35, 8, 12) {
	case 0:
		alg = "pbkdf2"
		iter := common.Pick(r, 1, 2, 3, 0, 16, -1)
		length := common.Pick(r, 32, 32, 16, 8, 64, 0, -1)
		saltlen := common.Pick(r, 8, 8, 0, 1, 16, -1)
		op = fmt.Sprintf("makepassword pbkdf2 %d %d %d 0 %s", iter, length, saltlen, vfH(pw))
		t.Count(fmt.Sprintf("make:pbkdf2-len%d", length))
	case 1:
		alg = "bcrypt"
		cost := common.Pick(r, 4, 4, 4, 5, 32, 99)
		op = fmt.Sprintf("makepassword bcrypt 0 0 %d %d %s", common.Pick(r, 0, 8), cost, vfH(pw))
		t.Count(fmt.Sprintf("make:bcrypt-pwlen%s", map[bool]string{true: ">72", false: "<=72"}[len(pw) > 72]))
	case 2:
		alg = "wildcard"
		pw = ""
		op = "makepassword wildcard 0 0 0 0 -"
		t.Count("make:wildcard")
	default:
		alg = common.Pick(r, "plain", "", "sha-256", "PBKDF2")
		op = fmt.Sprintf("makepassword %s 1 32 8 4 %s", vfEsc(alg), vfH(pw))
		t.Count("make:unknown-alg")
	}
	res := common.Do(t, e, op)
	t.Count("make-result:" + strings.Fields(res)[0])
	n := r.Range(2, 6)
	for i := 0; i < n; i++ {
		var try []byte
		switch r.Weighted(35, 35, 10, 10, 10) {
		case 0:
			try = []byte(pw)
		case 1:
			try = vfNearMiss(r, []byte(pw))
		case 2:
			try = []byte(vfGenClear(r))
		case 3:
			// the bcrypt key schedule: pw NUL pw collides with pw
			try = append(append([]byte(pw), 0), []byte(pw)...)
		default:
			try = append([]byte(pw), []byte("zzz")...)
		}
		res := common.Do(t, e, "matchmade "+common.Hex(try))
		t.Count("matchmade-" + alg + ":" + res)
	}
}

func vfAllStrings(alphabet []byte, maxlen int, f func([]byte)) {
	var rec func(prefix []byte)
	rec = func(prefix []byte) {
		f(prefix)
		if len(prefix) == maxlen {
			return
		}
		for _, c := range alphabet {
			rec(append(append([]byte(nil), prefix...), c))
		}
	}
	rec(nil)
}

func vfGenDirect(t *common.Trace, e common.Engine, r *common.Rng, n int) {
	vfCase(t, e, "direct")
	for i := 0; i < n; i++ {
		switch r.Weighted(3, 2, 5) {
		case 0:
			name := common.Pick(r, append(append([]string{}, vfNames...), vfOddNames...)...)
			if r.Intn(3) == 0 {
				b := make([]byte, r.Range(0, 8))
				for j := range b {
					b[j] = common.Pick(r, byte('a'), byte('.'), byte('/'), byte('\\'), byte(' '), byte(0xc3))
				}
				name = string(b)
			}
			common.Do(t, e, "valid "+vfH(name))
		case 1:
			a := []byte(vfGenClear(r))
			b := a
			if r.Intn(3) != 0 {
				b = vfNearMiss(r, a)
			}
			if r.Intn(8) == 0 {
				b = []byte(vfGenClear(r))
			}
			common.Do(t, e, "ctc "+common.Hex(a)+" "+common.Hex(b))
		default:
			pw := vfGenPwSpec(t, r, r.Intn(4) == 0)
			var try []byte
			switch {
			case pw.hasClear && r.Intn(2) == 0:
				try = pw.clear
			case pw.hasClear:
				try = vfNearMiss(r, pw.clear)
			default:
				try = []byte(vfGenClear(r))
			}
			res := common.Do(t, e, "match "+pw.spec+" "+common.Hex(try))
			t.Count("match-result:" + res)
		}
	}
}

func vfGen(t *common.Trace, e common.Engine, r *common.Rng, thorough bool) {
	// common.NewRng(seed) starts the splitmix64 counter at seed*gamma, so seed k+1 yields the stream
	// of seed k shifted by one draw; re-seeding from the first (mixed) output decorrelates the seeds.
	r = common.NewRng(r.U64())
	vfWide = thorough
	// the role table first, then all short usernames over the alphabet that
	// matters to validUsername
	vfCase(t, e, "roles")
	common.Do(t, e, "roles")
	vfCase(t, e, "valid-exhaustive")
	maxlen := 5
	if thorough {
		maxlen = 7
	}
	vfAllStrings([]byte{'a', '.', '/', '\\'}, maxlen, func(b []byte) {
		common.Do(t, e, "valid "+common.Hex(b))
	})
	// fixed regression cases (documented findings and boundaries)
	vfFixedCases(t, e)
	n := 5000
	if thorough {
		n = 40000
	}
	for i := 0; i < n; i++ {
		switch r.Weighted(58, 24, 12, 6) {
		case 0:
			vfGenLoginCase(t, e, r, false)
		case 1:
			vfGenLoginCase(t, e, r, true)
		case 2:
			vfGenMakeCase(t, e, r)
		default:
			vfGenDirect(t, e, r, r.Range(5, 30))
		}
	}
}

func vfFixedCases(t *common.Trace, e common.Engine) {
	run := func(name string, ops ...string) {
		vfCase(t, e, name)
		for _, op := range ops {
			common.Do(t, e, op)
		}
	}
	sec := vfH("secret")
	// TestPermissions-like description: named users with roles, a wildcard user
	run("fixed-basic",
		"desc 000 u,"+vfH("jch")+",s:"+sec+",r:op u,"+vfH("john")+",s:"+vfH("secret2")+",r:present u,"+vfH("james")+",s:"+vfH("secret3")+",r:message u,"+vfH("peter")+",s:"+vfH("secret4")+",a w,-,s:"+vfH("open")+",r:observe",
		"login "+vfH("jch")+" "+sec,
		"login "+vfH("jch")+" "+vfH("open"),
		"login "+vfH("john")+" "+vfH("secret2"),
		"login "+vfH("james")+" "+vfH("secret3"),
		"login "+vfH("peter")+" "+vfH("secret4"),
		"login "+vfH("paul")+" "+vfH("open"),
		"login "+vfH("paul")+" "+sec,
		"login "+vfH("..")+" "+vfH("open"),
		"login - "+vfH("open"),
		"login ~ "+vfH("open"))
	// Regression sequences for the defects found with this engine (each is minimal).
	// (1) role slices are package-level data returned uncopied and edited in place by
	//     rtpconn's remove/addnew: one unop strips `op` from every later holder of the role ...
	run("fixed-alias-role-denial",
		"desc 000 u,"+vfH("alice")+",s:"+sec+",r:op u,"+vfH("bob")+",s:"+sec+",r:op",
		"join c0 "+vfH("alice")+" "+sec,
		"mod c0 unop",
		"login "+vfH("bob")+" "+sec)
	// ... and shutup followed by op on one presenter makes every later presenter an operator
	run("fixed-alias-role-escalation",
		"desc 000 u,"+vfH("alice")+",s:"+sec+",r:present u,"+vfH("bob")+",s:"+sec+",r:present",
		"join c0 "+vfH("alice")+" "+sec,
		"mod c0 shutup",
		"mod c0 op",
		"login "+vfH("bob")+" "+sec)
	// (2) the same aliasing for a raw permission array stored in the description
	run("fixed-alias-raw",
		"desc 000 u,"+vfH("alice")+",s:"+sec+",l:op+present",
		"join c0 "+vfH("alice")+" "+sec,
		"mod c0 unop",
		"login "+vfH("alice")+" "+sec)
	// (3) two members holding the same slice: moderating one changes the other
	run("fixed-alias-members",
		"desc 000 u,"+vfH("alice")+",s:"+sec+",r:op u,"+vfH("bob")+",s:"+sec+",r:op",
		"join c0 "+vfH("alice")+" "+sec,
		"join c1 "+vfH("bob")+" "+sec,
		"mod c0 unop",
		"mod c1 present")
	// (4) "password": null is the plain password ""
	run("fixed-null-password",
		"desc 000 u,"+vfH("alice")+",n,r:op",
		"login "+vfH("alice")+" "+sec,
		"login "+vfH("alice")+" -")
	// (5) a pbkdf2 record with an empty key matches every password (not claimed either way)
	run("fixed-pbkdf2-empty-key",
		"desc 000 u,"+vfH("alice")+",j:"+vfLit("pbkdf2")+":"+vfLit("sha-256")+":"+vfLit("")+":"+vfLit("00")+":1,r:op",
		"login "+vfH("alice")+" "+sec,
		"login "+vfH("alice")+" -")
	// (6) boundaries of the hash functions: HMAC zero padding, bcrypt's 72 bytes and NUL cycle
	a72 := vfH(strings.Repeat("a", 72))
	run("fixed-hash-boundaries",
		"makepassword pbkdf2 2 32 8 0 "+sec,
		"matchmade "+sec,
		"matchmade "+sec+"00",
		"matchmade "+vfH("secre"),
		"makepassword pbkdf2 2 0 8 0 "+sec,
		"matchmade "+vfH("anything"),
		"makepassword bcrypt 0 0 0 4 "+a72,
		"matchmade "+a72,
		"matchmade "+a72+"7a7a7a",
		"matchmade "+vfH(strings.Repeat("a", 71)),
		"makepassword bcrypt 0 0 0 4 "+vfH("ab"),
		"matchmade "+vfH("ab"),
		"matchmade "+vfH("ab\x00ab"),
		"matchmade "+vfH("abab"),
		"makepassword bcrypt 0 0 0 4 "+a72+"61")
	// all four flag combinations for each role
	for _, fl := range []string{"000", "100", "010", "110"} {
		var ents, logins []string
		for _, rn := range append(append([]string{}, vfRoleNames...)) {
			ents = append(ents, "u,"+vfH("u-"+rn)+",s:"+sec+",r:"+rn)
			logins = append(logins, "login "+vfH("u-"+rn)+" "+sec)
		}
		ents = append(ents, "u,"+vfH("raw")+",s:"+sec+",l:op+present", "u,"+vfH("raw2")+",s:"+sec+",l:present")
		logins = append(logins, "login "+vfH("raw")+" "+sec, "login "+vfH("raw2")+" "+sec)
		run("fixed-flags-"+fl, append([]string{"desc " + fl + " " + strings.Join(ents, " ")}, logins...)...)
	}
}
