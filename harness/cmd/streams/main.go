// Engine `streams` (C07): galene's real websocket handler (webserver.wsHandler
// -> rtpconn.StartClient) mounted on a loopback HTTP server in this process,
// driven by scripted websocket clients speaking galene-protocol.md.  Publishers
// own a real pion PeerConnection (VP8 + opus TrackLocalStaticRTP) and push RTP
// so that OnTrack fires on the server; subscribers answer every offer with a
// real PeerConnection and record every offer/close/abort they receive.
//
// Everything that is compared or judged comes from the clients' websockets.
// The rtpconn shim is used only to synchronise (has OnTrack fired, has the
// delayed push happened).
//
// Ops (one line each; result = the offer/close/abort/disconnect events seen by
// all clients since the previous op, canonically sorted):
//
//	join c g role          role: o (op+present) | p (present) | v (observer)
//	leave c                join/leave message
//	disc c                 close the websocket
//	request c map          map: label=kinds,...  (label _ = "", kinds over a v l x, 0 = [])  - = {}
//	reqstream c sN kinds   kinds as above, or null
//	abort c sN | close c sN
//	offer c sN label repl spec   spec: string over a v (the PeerConnection's tracks, in m-line order)
//	track c sN k kind      push RTP on track k until OnTrack has fired on the server
//	settle                 wait until every delayed push (200 ms) has happened
//	kick o c | unpresent o c | present o c
//	hold c / unhold c      subscriber c stops / resumes answering offers automatically
//	answer c sN            subscriber c answers the pending offer of sN
//
// Environment trouble (timeouts, PeerConnection setup failure, an op that
// overran the 200 ms window of a pending push) yields `env:<why>`: the case is
// abandoned, it is not a verdict.
package main

import (
	"encoding/json"
	"fmt"
	"io"
	"log"
	"net/http"
	"net/http/httptest"
	"os"
	"path/filepath"
	"sort"
	"strings"
	"sync"
	"time"

	"github.com/gorilla/websocket"
	"github.com/pion/rtp"
	"github.com/pion/sdp/v3"
	"github.com/pion/webrtc/v4"

	"github.com/jech/galene/group"
	"github.com/jech/galene/ice"
	"github.com/jech/galene/rtpconn"
	"github.com/jech/galene/webserver"
	"github.com/jech/galene/zzverif/common"
)

const nSlots = 6
const pushDelay = 200 * time.Millisecond

var (
	srvOnce sync.Once
	srvURL  string
	srvDir  string
	api     *webrtc.API
	caseSeq int
)

func startServer() {
	srvOnce.Do(func() {
		log.SetOutput(io.Discard)
		// groups/ and data/ of the in-process server: under <verif>/.build when run by the runner
		base := os.TempDir()
		if root := os.Getenv("VERIF_ROOT"); root != "" {
			base = filepath.Join(root, ".build")
		}
		os.MkdirAll(base, 0o755)
		dir, err := os.MkdirTemp(base, "streams-run-")
		if err != nil {
			panic(err)
		}
		srvDir = dir
		os.MkdirAll(filepath.Join(dir, "groups"), 0o755)
		os.MkdirAll(filepath.Join(dir, "data"), 0o755)
		group.Directory = filepath.Join(dir, "groups")
		group.DataDirectory = filepath.Join(dir, "data")
		ice.ICEFilename = filepath.Join(dir, "data", "ice-servers.json")
		os.WriteFile(ice.ICEFilename, []byte("[]\n"), 0o644)
		webserver.Insecure = true
		mux := http.NewServeMux()
		mux.HandleFunc("/ws", webserver.VerifWSHandler)
		srv := httptest.NewServer(mux)
		srvURL = "ws" + strings.TrimPrefix(srv.URL, "http") + "/ws"
		api, err = group.APIFromNames(nil)
		if err != nil {
			panic(err)
		}
	})
}

type envError string

func env(f string, a ...any) { panic(envError(fmt.Sprintf(f, a...))) }

type msg struct {
	Type        string                   `json:"type"`
	Version     []string                 `json:"version,omitempty"`
	Kind        string                   `json:"kind,omitempty"`
	Error       string                   `json:"error,omitempty"`
	Id          string                   `json:"id,omitempty"`
	Replace     string                   `json:"replace,omitempty"`
	Source      string                   `json:"source,omitempty"`
	Dest        string                   `json:"dest,omitempty"`
	Username    *string                  `json:"username,omitempty"`
	Password    string                   `json:"password,omitempty"`
	Permissions []string                 `json:"permissions,omitempty"`
	Data        map[string]any           `json:"data,omitempty"`
	Group       string                   `json:"group,omitempty"`
	Value       any                      `json:"value,omitempty"`
	SDP         string                   `json:"sdp,omitempty"`
	Candidate   *webrtc.ICECandidateInit `json:"candidate,omitempty"`
	Label       string                   `json:"label,omitempty"`
	Request     any                      `json:"request"`
}

type pubStream struct {
	id      string
	key     string
	pc      *webrtc.PeerConnection
	tracks  []*webrtc.TrackLocalStaticRTP
	names   []string
	seq     []uint16
	remote  bool
	pending []webrtc.ICECandidateInit
}

type subConn struct {
	pc         *webrtc.PeerConnection
	offer      string // pending (unanswered) offer when the client holds its answers
	lastAnswer string
	pending    []webrtc.ICECandidateInit
}

type evt struct {
	id  string
	tok string
}

type client struct {
	e    *eng
	slot int
	id   string
	ws   *websocket.Conn
	wmu  sync.Mutex

	// guarded by e.mu
	dead     bool
	joins    int
	group    string
	username string
	joined   []string // joined kinds received
	marker   int
	pongs    int
	answers  map[string]int // answers/aborts received for own offers: id -> count
	events   []evt
	subs     map[string]*subConn
	pubs     map[string]*pubStream
	hold     bool
	nOffers  int
	deleted  map[string]int // user/delete messages seen, by client id
}

type eng struct {
	mu       sync.Mutex
	cs       [nSlots]*client
	caseId   int
	groups   map[string]bool
	nonce    int
	envNote  string
	earliest time.Time // earliest possible firing time of a pending delayed push (zero: none)
	latest   time.Time // latest possible firing time of a pending delayed push
	dbg      bool
}

func (e *eng) Reset() {
	startServer()
	e.mu.Lock()
	cs := e.cs
	e.cs = [nSlots]*client{}
	e.mu.Unlock()
	for _, c := range cs {
		if c != nil {
			c.shutdown()
		}
	}
	rtpconn.VerifForgetUps()
	caseSeq++
	e.caseId = caseSeq
	e.groups = map[string]bool{}
	e.earliest, e.latest = time.Time{}, time.Time{}
	e.dbg = os.Getenv("VERIF_DEBUG") != ""
}

func (c *client) shutdown() {
	c.e.mu.Lock()
	subs, pubs := c.subs, c.pubs
	c.subs, c.pubs = map[string]*subConn{}, map[string]*pubStream{}
	c.dead = true
	c.e.mu.Unlock()
	c.ws.Close()
	for _, s := range subs {
		if s.pc != nil {
			s.pc.Close()
		}
	}
	for _, p := range pubs {
		p.pc.Close()
	}
}

func (e *eng) groupName(g string) string { return fmt.Sprintf("k%dp%d%s", e.caseId, os.Getpid(), g) }

func userName(role string, slot, join int) string { return fmt.Sprintf("%s%dj%d", role, slot, join) }

func (e *eng) ensureGroup(g string) {
	if e.groups[g] {
		return
	}
	e.groups[g] = true
	users := map[string]any{}
	perms := map[string][]string{"o": {"op", "present", "message"}, "p": {"present", "message"}, "v": {"message"}}
	for role, p := range perms {
		for s := 0; s < nSlots; s++ {
			for j := 0; j < 6; j++ {
				users[userName(role, s, j)] = map[string]any{"password": "pw", "permissions": append([]string(nil), p...)}
			}
		}
	}
	b, _ := json.Marshal(map[string]any{"users": users})
	err := os.WriteFile(filepath.Join(group.Directory, e.groupName(g)+".json"), b, 0o644)
	if err != nil {
		env("group file: %v", err)
	}
}

func waitFor(timeout time.Duration, pred func() bool) bool {
	deadline := time.Now().Add(timeout)
	for i := 0; ; i++ {
		if pred() {
			return true
		}
		if time.Now().After(deadline) {
			return false
		}
		if i < 50 {
			time.Sleep(50 * time.Microsecond)
		} else {
			time.Sleep(300 * time.Microsecond)
		}
	}
}

func (c *client) send(m msg) {
	c.wmu.Lock()
	defer c.wmu.Unlock()
	c.ws.SetWriteDeadline(time.Now().Add(2 * time.Second))
	if c.e.dbg && m.Type != "ice" {
		b, _ := json.Marshal(m)
		s := string(b)
		if len(s) > 160 {
			s = s[:160]
		}
		fmt.Fprintf(os.Stderr, "-> c%d %s\n", c.slot, s)
	}
	c.ws.WriteJSON(sendable(m)) // an error shows up as a dead reader
}

// sendable drops the request field unless the message is a request
func sendable(m msg) any {
	b, _ := json.Marshal(m)
	var mm map[string]any
	json.Unmarshal(b, &mm)
	if m.Type != "request" && m.Type != "requestStream" {
		delete(mm, "request")
	}
	return mm
}

func (e *eng) client(slot int) *client {
	e.mu.Lock()
	c := e.cs[slot]
	e.mu.Unlock()
	if c != nil {
		return c
	}
	var ws *websocket.Conn
	var err error
	for try := 0; try < 3; try++ {
		ws, _, err = websocket.DefaultDialer.Dial(srvURL, nil)
		if err == nil {
			break
		}
		time.Sleep(20 * time.Millisecond)
	}
	if err != nil {
		env("dial: %v", err)
	}
	c = &client{e: e, slot: slot, id: fmt.Sprintf("c%d", slot), ws: ws,
		subs: map[string]*subConn{}, pubs: map[string]*pubStream{}, answers: map[string]int{}, deleted: map[string]int{}}
	e.mu.Lock()
	e.cs[slot] = c
	e.mu.Unlock()
	go c.reader()
	c.send(msg{Type: "handshake", Version: []string{"2"}, Id: c.id})
	return c
}

func slotOf(id string) int {
	var n int
	if _, err := fmt.Sscanf(id, "c%d", &n); err != nil {
		return -1
	}
	return n
}

// offeredTracks lists the ids of the tracks a downstream offer actually sends
// (media sections with a sending direction and an msid), sorted.
func offeredTracks(s string) string {
	var d sdp.SessionDescription
	if err := d.Unmarshal([]byte(s)); err != nil {
		return "badsdp"
	}
	var ids []string
	for _, m := range d.MediaDescriptions {
		sending := false
		track := ""
		for _, a := range m.Attributes {
			switch a.Key {
			case "sendonly", "sendrecv":
				sending = true
			case "msid":
				f := strings.Fields(a.Value)
				if len(f) == 2 {
					track = f[1]
				}
			}
		}
		if sending && m.MediaName.Port.Value != 0 {
			if track == "" {
				track = "?" + m.MediaName.Media
			}
			ids = append(ids, track)
		}
	}
	sort.Strings(ids)
	if len(ids) == 0 {
		return "-"
	}
	return strings.Join(ids, "+")
}

func dash(s string) string {
	if s == "" {
		return "-"
	}
	if s == "_" {
		return "%5f"
	}
	return strings.NewReplacer(" ", "%20", "/", "%2f").Replace(s)
}

func (c *client) record(id, tok string) {
	c.events = append(c.events, evt{id, tok})
}

func (c *client) reader() {
	e := c.e
	for {
		var m msg
		err := c.ws.ReadJSON(&m)
		if err != nil {
			e.mu.Lock()
			if !c.dead {
				c.dead = true
				c.group = ""
				c.record("~", fmt.Sprintf("X%d", c.slot))
			}
			e.mu.Unlock()
			return
		}
		if e.dbg && m.Type != "ice" && m.Type != "user" && m.Type != "pong" {
			b, _ := json.Marshal(m)
			s := string(b)
			if len(s) > 200 {
				s = s[:200]
			}
			fmt.Fprintf(os.Stderr, "<- c%d %s\n", c.slot, s)
		}
		switch m.Type {
		case "ping":
			c.send(msg{Type: "pong"})
		case "pong":
			e.mu.Lock()
			c.pongs++
			e.mu.Unlock()
		case "joined":
			e.mu.Lock()
			c.joined = append(c.joined, m.Kind)
			switch m.Kind {
			case "join":
				c.group = m.Group
				if m.Username != nil {
					c.username = *m.Username
				}
			case "leave", "fail":
				c.group = ""
			}
			e.mu.Unlock()
		case "user":
			if m.Kind == "delete" {
				e.mu.Lock()
				c.deleted[m.Id]++
				e.mu.Unlock()
			}
			if m.Kind == "change" && m.Data != nil {
				if v, ok := m.Data["verifmarker"].(float64); ok {
					e.mu.Lock()
					if int(v) > c.marker {
						c.marker = int(v)
					}
					e.mu.Unlock()
				}
			}
		case "offer":
			user := ""
			if m.Username != nil {
				user = *m.Username
			}
			e.mu.Lock()
			c.nOffers++
			c.record(m.Id, fmt.Sprintf("O%d/%s/%s/%d/%s/%s/%s", c.slot, m.Id, dash(m.Label), slotOf(m.Source),
				dash(user), dash(m.Replace), offeredTracks(m.SDP)))
			var old *subConn
			if m.Replace != "" && m.Replace != m.Id {
				old = c.subs[m.Replace]
				delete(c.subs, m.Replace)
			}
			s := c.subs[m.Id]
			if s == nil {
				s = &subConn{}
				c.subs[m.Id] = s
			}
			s.offer = m.SDP
			hold := c.hold
			e.mu.Unlock()
			if old != nil && old.pc != nil {
				old.pc.Close()
			}
			if !hold {
				c.answer(m.Id)
			}
		case "answer":
			e.mu.Lock()
			p := c.pubs[m.Id]
			e.mu.Unlock()
			if p != nil {
				err := p.pc.SetRemoteDescription(webrtc.SessionDescription{Type: webrtc.SDPTypeAnswer, SDP: m.SDP})
				e.mu.Lock()
				if err != nil {
					e.envNote = "publisher SetRemoteDescription: " + err.Error()
				} else {
					p.remote = true
					for _, cand := range p.pending {
						p.pc.AddICECandidate(cand)
					}
					p.pending = nil
				}
				e.mu.Unlock()
			}
			e.mu.Lock()
			c.answers[m.Id]++
			e.mu.Unlock()
		case "ice":
			if m.Candidate == nil {
				break
			}
			e.mu.Lock()
			if p := c.pubs[m.Id]; p != nil {
				if p.remote {
					e.mu.Unlock()
					p.pc.AddICECandidate(*m.Candidate)
					break
				}
				p.pending = append(p.pending, *m.Candidate)
			} else if s := c.subs[m.Id]; s != nil {
				if s.pc != nil && s.pc.RemoteDescription() != nil {
					e.mu.Unlock()
					s.pc.AddICECandidate(*m.Candidate)
					break
				}
				s.pending = append(s.pending, *m.Candidate)
			}
			e.mu.Unlock()
		case "close":
			e.mu.Lock()
			c.record(m.Id, fmt.Sprintf("C%d/%s", c.slot, m.Id))
			s := c.subs[m.Id]
			delete(c.subs, m.Id)
			e.mu.Unlock()
			if s != nil && s.pc != nil {
				s.pc.Close()
			}
		case "abort":
			e.mu.Lock()
			c.record(m.Id, fmt.Sprintf("A%d/%s", c.slot, m.Id))
			p := c.pubs[m.Id]
			delete(c.pubs, m.Id)
			c.answers[m.Id]++
			e.mu.Unlock()
			if p != nil {
				p.pc.Close()
				// the reference client answers an abort with a close
				c.send(msg{Type: "close", Id: m.Id})
			}
		}
	}
}

// answer answers the pending offer of downstream id with a real PeerConnection.
func (c *client) answer(id string) bool {
	e := c.e
	e.mu.Lock()
	s := c.subs[id]
	var offer string
	if s != nil {
		offer = s.offer
		s.offer = ""
	}
	e.mu.Unlock()
	if s == nil || offer == "" {
		// nothing to answer: repeat the previous answer (or send a dummy one for an unknown stream)
		sdp := "v=0\r\n"
		if s != nil && s.lastAnswer != "" {
			sdp = s.lastAnswer
		}
		c.send(msg{Type: "answer", Id: id, SDP: sdp})
		return false
	}
	fail := func(what string, err error) bool {
		if strings.Contains(err.Error(), "connection closed") {
			// the server has already closed this downstream (its DTLS close
			// closes our PeerConnection); the offer is obsolete
			return false
		}
		e.mu.Lock()
		e.envNote = fmt.Sprintf("subscriber %d %s %s: %v", c.slot, id, what, err)
		e.mu.Unlock()
		return false
	}
	if s.pc == nil {
		pc, err := api.NewPeerConnection(webrtc.Configuration{})
		if err != nil {
			return fail("NewPeerConnection", err)
		}
		pc.OnICECandidate(func(cand *webrtc.ICECandidate) {
			if cand != nil {
				j := cand.ToJSON()
				c.send(msg{Type: "ice", Id: id, Candidate: &j})
			}
		})
		s.pc = pc
	}
	if err := s.pc.SetRemoteDescription(webrtc.SessionDescription{Type: webrtc.SDPTypeOffer, SDP: offer}); err != nil {
		return fail("SetRemoteDescription", err)
	}
	e.mu.Lock()
	pend := s.pending
	s.pending = nil
	e.mu.Unlock()
	for _, cand := range pend {
		s.pc.AddICECandidate(cand)
	}
	ans, err := s.pc.CreateAnswer(nil)
	if err != nil {
		return fail("CreateAnswer", err)
	}
	if err := s.pc.SetLocalDescription(ans); err != nil {
		return fail("SetLocalDescription", err)
	}
	s.lastAnswer = s.pc.LocalDescription().SDP
	c.send(msg{Type: "answer", Id: id, SDP: s.lastAnswer})
	return true
}

// pingAll: a ping/pong round trip on every live client; when the pong is back
// every message the client sent before has been handled by its server loop.
func (e *eng) pingAll() {
	type w struct {
		c    *client
		want int
	}
	var ws []w
	e.mu.Lock()
	for _, c := range e.cs {
		if c != nil && !c.dead {
			ws = append(ws, w{c, c.pongs + 1})
		}
	}
	e.mu.Unlock()
	for _, x := range ws {
		x.c.send(msg{Type: "ping"})
	}
	ok := waitFor(5*time.Second, func() bool {
		e.mu.Lock()
		defer e.mu.Unlock()
		for _, x := range ws {
			if !x.c.dead && x.c.pongs < x.want {
				return false
			}
		}
		return true
	})
	if !ok {
		env("pong timeout")
	}
}

// barrier: one member of each group changes its user data; the resulting
// `user` message travels through every member's action queue (FIFO), so when
// all members have seen it every action queued before has been handled.
func (e *eng) barrier() {
	e.mu.Lock()
	groups := map[string][]*client{}
	for _, c := range e.cs {
		if c != nil && !c.dead && c.group != "" {
			groups[c.group] = append(groups[c.group], c)
		}
	}
	e.nonce++
	n := e.nonce
	e.mu.Unlock()
	for _, members := range groups {
		init := members[0]
		init.send(msg{Type: "useraction", Kind: "setdata", Source: init.id, Dest: init.id,
			Value: map[string]any{"verifmarker": n}})
	}
	ok := waitFor(5*time.Second, func() bool {
		e.mu.Lock()
		defer e.mu.Unlock()
		for _, members := range groups {
			if members[0].dead || members[0].group == "" {
				continue // the initiator went away: this round is void for its group
			}
			for _, c := range members {
				if !c.dead && c.group != "" && c.marker < n {
					return false
				}
			}
		}
		return true
	})
	if !ok {
		env("barrier timeout")
	}
}

func (e *eng) offersSeen() int {
	e.mu.Lock()
	defer e.mu.Unlock()
	n := 0
	for _, c := range e.cs {
		if c != nil {
			n += c.nOffers + len(c.events)
		}
	}
	return n
}

// quiesce waits until the server has handled everything the ops so far caused
// (not the delayed pushes).
func (e *eng) quiesce() {
	e.pingAll()
	for r := 0; r < 4; r++ {
		e.barrier()
	}
	e.pingAll()
	for iter := 0; iter < 20; iter++ {
		before := e.offersSeen()
		e.barrier()
		e.barrier()
		e.pingAll()
		if e.offersSeen() == before {
			return
		}
	}
	env("no quiescence")
}

func (e *eng) collect() string {
	e.mu.Lock()
	defer e.mu.Unlock()
	type row struct {
		slot int
		id   string
		seq  int
		tok  string
	}
	var rows []row
	for _, c := range e.cs {
		if c == nil {
			continue
		}
		for i, ev := range c.events {
			rows = append(rows, row{c.slot, ev.id, i, ev.tok})
		}
		c.events = nil
	}
	if e.envNote != "" {
		n := e.envNote
		e.envNote = ""
		return "env:" + strings.ReplaceAll(n, " ", "_")
	}
	sort.SliceStable(rows, func(i, j int) bool {
		if rows[i].slot != rows[j].slot {
			return rows[i].slot < rows[j].slot
		}
		if rows[i].id != rows[j].id {
			return rows[i].id < rows[j].id
		}
		return rows[i].seq < rows[j].seq
	})
	if len(rows) == 0 {
		return "-"
	}
	toks := make([]string, len(rows))
	for i, r := range rows {
		toks[i] = r.tok
	}
	return strings.Join(toks, " ")
}

var kindNames = map[byte]string{'a': "audio", 'v': "video", 'l': "video-low", 'x': "bogus"}

func parseKinds(s string) any {
	if s == "null" {
		return nil
	}
	out := []string{}
	if s == "0" {
		return out
	}
	for i := 0; i < len(s); i++ {
		k, ok := kindNames[s[i]]
		if !ok {
			panic("bad kinds " + s)
		}
		out = append(out, k)
	}
	return out
}

func parseLabel(s string) string {
	if s == "_" {
		return ""
	}
	return s
}

func parseRequest(s string) map[string]any {
	m := map[string]any{}
	if s == "-" {
		return m
	}
	for _, kv := range strings.Split(s, ",") {
		i := strings.IndexByte(kv, '=')
		if i < 0 {
			panic("bad request " + s)
		}
		m[parseLabel(kv[:i])] = parseKinds(kv[i+1:])
	}
	return m
}

// checkWindow: ops issued while a delayed push is pending must be over before
// it can fire, otherwise their order relative to the push is unknown.
func (e *eng) checkWindow() {
	if !e.earliest.IsZero() && time.Now().After(e.earliest.Add(-15*time.Millisecond)) {
		env("timing: op overran the window of a pending delayed push")
	}
}

func (e *eng) scheduled(start time.Time) {
	if e.earliest.IsZero() {
		e.earliest = start.Add(pushDelay)
	}
	e.latest = time.Now().Add(pushDelay)
}

func (e *eng) Exec(op []string) (res string) {
	defer func() {
		if r := recover(); r != nil {
			if ee, ok := r.(envError); ok {
				res = "env:" + strings.ReplaceAll(string(ee), " ", "_")
				return
			}
			panic(r)
		}
	}()
	a := func(i int) int { return common.Atoi(op[i]) }
	switch op[0] {
	case "join":
		c := e.client(a(1))
		e.ensureGroup(op[2])
		e.mu.Lock()
		user := userName(op[3], c.slot, c.joins)
		c.joins++
		nj := len(c.joined)
		e.mu.Unlock()
		c.send(msg{Type: "join", Kind: "join", Group: e.groupName(op[2]), Username: &user, Password: "pw"})
		if !waitFor(5*time.Second, func() bool {
			e.mu.Lock()
			defer e.mu.Unlock()
			return c.dead || len(c.joined) > nj
		}) {
			env("join timeout")
		}
	case "leave":
		c := e.client(a(1))
		e.mu.Lock()
		g := c.group
		subs := c.subs
		c.subs = map[string]*subConn{}
		pubs := c.pubs
		c.pubs = map[string]*pubStream{}
		nj := len(c.joined)
		e.mu.Unlock()
		if g == "" {
			g = e.groupName("none")
		}
		c.send(msg{Type: "join", Kind: "leave", Group: g})
		if !waitFor(5*time.Second, func() bool {
			e.mu.Lock()
			defer e.mu.Unlock()
			return c.dead || len(c.joined) > nj
		}) {
			env("leave timeout")
		}
		for _, s := range subs {
			if s.pc != nil {
				s.pc.Close()
			}
		}
		for _, p := range pubs {
			p.pc.Close()
		}
	case "disc":
		c := e.client(a(1))
		// make sure the handshake has been processed, so that the server side exists
		e.pingAll()
		e.mu.Lock()
		var witnesses []*client
		want := map[*client]int{}
		if c.group != "" {
			for _, o := range e.cs {
				if o != nil && o != c && !o.dead && o.group == c.group {
					witnesses = append(witnesses, o)
					want[o] = o.deleted[c.id] + 1
				}
			}
		}
		e.mu.Unlock()
		c.shutdown()
		e.mu.Lock()
		c.group = ""
		e.mu.Unlock()
		// the server notices the closed socket asynchronously: the other members
		// are told (user/delete) after leaveGroup has queued the closes
		if len(witnesses) > 0 {
			if !waitFor(5*time.Second, func() bool {
				e.mu.Lock()
				defer e.mu.Unlock()
				for _, o := range witnesses {
					if !o.dead && o.deleted[c.id] < want[o] {
						return false
					}
				}
				return true
			}) {
				env("disconnect not noticed")
			}
		} else {
			time.Sleep(20 * time.Millisecond)
		}
	case "request":
		c := e.client(a(1))
		c.send(msg{Type: "request", Request: parseRequest(op[2])})
	case "reqstream":
		c := e.client(a(1))
		c.send(msg{Type: "requestStream", Id: op[2], Request: parseKinds(op[3])})
	case "abort":
		c := e.client(a(1))
		c.send(msg{Type: "abort", Id: op[2]})
	case "close":
		c := e.client(a(1))
		e.mu.Lock()
		p := c.pubs[op[2]]
		delete(c.pubs, op[2])
		e.mu.Unlock()
		c.send(msg{Type: "close", Id: op[2]})
		if p != nil {
			p.pc.Close()
		}
	case "offer":
		e.doOffer(e.client(a(1)), op[2], parseLabel(op[3]), op[4], op[5])
	case "track":
		e.doTrack(e.client(a(1)), op[2], a(3))
	case "settle":
		if !e.latest.IsZero() {
			if d := time.Until(e.latest.Add(25 * time.Millisecond)); d > 0 {
				time.Sleep(d)
			}
			if !waitFor(3*time.Second, func() bool { return rtpconn.VerifPendingPushes() == 0 }) {
				env("delayed push did not happen")
			}
			time.Sleep(3 * time.Millisecond)
		}
		e.earliest, e.latest = time.Time{}, time.Time{}
	case "kick", "unpresent", "present":
		c := e.client(a(1))
		t := e.client(a(2))
		c.send(msg{Type: "useraction", Kind: op[0], Source: c.id, Dest: t.id})
	case "hold", "unhold":
		c := e.client(a(1))
		e.mu.Lock()
		c.hold = op[0] == "hold"
		var ids []string
		if !c.hold {
			for id, s := range c.subs {
				if s.offer != "" {
					ids = append(ids, id)
				}
			}
		}
		e.mu.Unlock()
		for _, id := range ids {
			c.answer(id)
		}
	case "answer":
		c := e.client(a(1))
		c.answer(op[2])
	case "pushrace":
		return e.pushrace()
	default:
		panic("unknown op " + op[0])
	}
	e.quiesce()
	if op[0] != "settle" {
		e.checkWindow()
	}
	return e.collect()
}

var capVP8 = webrtc.RTPCodecCapability{MimeType: "video/VP8", ClockRate: 90000}
var capOpus = webrtc.RTPCodecCapability{MimeType: "audio/opus", ClockRate: 48000, Channels: 2,
	SDPFmtpLine: "minptime=10;useinbandfec=1;stereo=1;sprop-stereo=1"}

func (e *eng) doOffer(c *client, id, label, replace, spec string) {
	if replace == "-" {
		replace = ""
	}
	e.mu.Lock()
	if c.dead {
		e.mu.Unlock()
		return
	}
	old := c.pubs[id]
	var oldRepl *pubStream
	if replace != "" && replace != id {
		oldRepl = c.pubs[replace]
		delete(c.pubs, replace)
	}
	g := c.group
	na := c.answers[id]
	e.mu.Unlock()
	if old != nil {
		// renegotiation of an existing stream: a fresh offer from the same PeerConnection
		offer, err := old.pc.CreateOffer(nil)
		if err != nil {
			env("renegotiation CreateOffer: %v", err)
		}
		if err := old.pc.SetLocalDescription(offer); err != nil {
			env("renegotiation SetLocalDescription: %v", err)
		}
		user := c.username
		c.send(msg{Type: "offer", Id: id, Label: label, Replace: replace, Source: c.id, Username: &user,
			SDP: old.pc.LocalDescription().SDP})
		if !waitFor(5*time.Second, func() bool {
			e.mu.Lock()
			defer e.mu.Unlock()
			return c.dead || c.answers[id] > na
		}) {
			env("no answer to renegotiation")
		}
		if oldRepl != nil {
			oldRepl.pc.Close()
		}
		return
	}
	pc, err := api.NewPeerConnection(webrtc.Configuration{})
	if err != nil {
		env("NewPeerConnection: %v", err)
	}
	e.nonce++
	p := &pubStream{id: id, pc: pc, key: fmt.Sprintf("%d/%s/%s/%d", e.caseId, c.id, id, e.nonce)}
	for k := 0; k < len(spec); k++ {
		cap := capVP8
		if spec[k] == 'a' {
			cap = capOpus
		}
		name := fmt.Sprintf("%c%dc%d", spec[k], k, c.slot)
		t, err := webrtc.NewTrackLocalStaticRTP(cap, name, id)
		if err != nil {
			env("NewTrackLocalStaticRTP: %v", err)
		}
		if _, err := pc.AddTransceiverFromTrack(t, webrtc.RTPTransceiverInit{Direction: webrtc.RTPTransceiverDirectionSendonly}); err != nil {
			env("AddTransceiverFromTrack: %v", err)
		}
		p.tracks = append(p.tracks, t)
		p.names = append(p.names, name)
		p.seq = append(p.seq, uint16(1000*(k+1)))
	}
	offer, err := pc.CreateOffer(nil)
	if err != nil {
		env("CreateOffer: %v", err)
	}
	gather := webrtc.GatheringCompletePromise(pc)
	if err := pc.SetLocalDescription(offer); err != nil {
		env("SetLocalDescription: %v", err)
	}
	select {
	case <-gather:
	case <-time.After(5 * time.Second):
		env("ICE gathering timeout")
	}
	e.mu.Lock()
	c.pubs[id] = p
	e.mu.Unlock()
	start := time.Now()
	user := c.username
	c.send(msg{Type: "offer", Id: id, Label: label, Replace: replace, Source: c.id, Username: &user,
		SDP: pc.LocalDescription().SDP})
	if !waitFor(5*time.Second, func() bool {
		e.mu.Lock()
		defer e.mu.Unlock()
		return c.dead || c.answers[id] > na
	}) {
		env("no answer to offer")
	}
	if oldRepl != nil {
		oldRepl.pc.Close()
	}
	if g != "" {
		if rtpconn.VerifRegisterUp(p.key, group.Get(g), c.id, id) || replace == id {
			// (a stream that replaces itself is created, closed and refused, but its delayed push still happens)
			e.scheduled(start)
		}
	}
}

func (e *eng) doTrack(c *client, id string, k int) {
	e.mu.Lock()
	p := c.pubs[id]
	e.mu.Unlock()
	if p == nil || k >= len(p.tracks) {
		return // the stream does not exist (any more): nothing to send
	}
	has := func() bool {
		for _, n := range rtpconn.VerifUpTracks(p.key) {
			if n == p.names[k] {
				return true
			}
		}
		return false
	}
	start := time.Now()
	deadline := start.Add(6 * time.Second)
	for !has() {
		if time.Now().After(deadline) {
			env("OnTrack did not fire")
		}
		p.seq[k]++
		payload := []byte{0x10, 0x01, 0x02, 0x03, 0x04}
		if strings.HasPrefix(p.names[k], "a") {
			payload = []byte{0xf8, 0xff, 0xfe}
		}
		p.tracks[k].WriteRTP(&rtp.Packet{
			Header:  rtp.Header{Version: 2, SequenceNumber: p.seq[k], Timestamp: uint32(p.seq[k]) * 960},
			Payload: payload,
		})
		time.Sleep(500 * time.Microsecond)
	}
	e.scheduled(start)
}

// ---------------------------------------------------------------------------
// scenario generator

type gstream struct {
	id      string
	owner   int
	spec    string
	arrived []bool
	live    bool
}

type gclient struct {
	alive   bool
	group   string
	role    string
	present bool
	hold    bool
}

type scen struct {
	t       *common.Trace
	e       common.Engine
	r       *common.Rng
	cl      [nSlots]gclient
	streams []*gstream
	nextId  int
	pending int // ops since the first unsettled delayed push (0: none pending)
	dead    bool
}

func (s *scen) do(f string, a ...any) string {
	if s.dead {
		return ""
	}
	res := common.Do(s.t, s.e, fmt.Sprintf(f, a...))
	if strings.HasPrefix(res, "env:") {
		s.t.Count("abandoned:" + strings.SplitN(strings.TrimPrefix(res, "env:"), ":", 2)[0])
		s.dead = true
	}
	if s.pending > 0 {
		s.pending++
	}
	return res
}

func (s *scen) settle() {
	s.do("settle")
	s.pending = 0
}

var reqKinds = []string{"a", "v", "l", "av", "al", "av", "al", "avl", "vl", "x", "ax", "0", "va", "0"}
var reqLabels = []string{"_", "cam", "scr"}
var streamLabels = []string{"cam", "cam", "scr", "_", "vid"}
var specs = []string{"a", "v", "av", "av", "va", "avv", "vav", "vv", "vva", "aav"}

func (s *scen) randRequest() string {
	r := s.r
	if r.Intn(12) == 0 {
		return "-"
	}
	var parts []string
	for _, l := range reqLabels {
		if r.Intn(2) == 0 || (l == "_" && r.Intn(2) == 0) {
			parts = append(parts, l+"="+common.Pick(r, reqKinds...))
		}
	}
	if len(parts) == 0 {
		return "_=" + common.Pick(r, "av", "al", "a", "v")
	}
	return strings.Join(parts, ",")
}

func (s *scen) joined() []int {
	var out []int
	for i, c := range s.cl {
		if c.alive && c.group != "" {
			out = append(out, i)
		}
	}
	return out
}

func (s *scen) liveStreams(owner int) []*gstream {
	var out []*gstream
	for _, st := range s.streams {
		if st.live && (owner < 0 || st.owner == owner) {
			out = append(out, st)
		}
	}
	return out
}

func (s *scen) endStreams(owner int) {
	for _, st := range s.streams {
		if st.owner == owner {
			st.live = false
		}
	}
}

func (s *scen) pushTracks(st *gstream, all bool) {
	// deliver some (or all) of the stream's remaining tracks, in a random order
	var rest []int
	for k, a := range st.arrived {
		if !a {
			rest = append(rest, k)
		}
	}
	for len(rest) > 0 {
		i := s.r.Intn(len(rest))
		k := rest[i]
		rest = append(rest[:i], rest[i+1:]...)
		s.do("track %d %s %d %c", st.owner, st.id, k, st.spec[k])
		st.arrived[k] = true
		if s.pending == 0 {
			s.pending = 1
		}
		if !all && s.r.Intn(3) == 0 {
			break
		}
		if s.r.Intn(5) == 0 && len(rest) > 0 {
			s.settle()
		}
	}
}

func (s *scen) offer(c int, wide bool) {
	r := s.r
	s.nextId++
	id := fmt.Sprintf("s%d", s.nextId)
	repl := "-"
	mine := s.liveStreams(c)
	if len(mine) > 0 && r.Intn(3) == 0 {
		old := common.Pick(r, mine...)
		repl = old.id
		old.live = false
		s.t.Count("offer:replace")
	} else if r.Intn(25) == 0 {
		repl = "s99" // replacing a stream that does not exist
	}
	if wide && r.Intn(6) == 0 {
		// reuse of a stream id: one that this publisher closed earlier, or one another publisher uses
		var ids []string
		for _, st := range s.streams {
			if !st.live || st.owner != c {
				ids = append(ids, st.id)
			}
		}
		if len(ids) > 0 {
			cand := common.Pick(r, ids...)
			clash := false
			for _, st := range s.liveStreams(c) {
				if st.id == cand {
					clash = true
				}
			}
			if !clash && cand != repl {
				id = cand
				s.t.Count("offer:reused-id")
			}
		}
	}
	spec := common.Pick(r, specs...)
	label := common.Pick(r, streamLabels...)
	if wide && r.Intn(12) == 0 && s.pending == 0 {
		// renegotiation of one of the publisher's live streams (possibly naming another one as `replace`)
		var cands []*gstream
		for _, st := range s.liveStreams(c) {
			if st.id != repl {
				cands = append(cands, st)
			}
		}
		if len(cands) > 0 {
			st := common.Pick(r, cands...)
			s.t.Count("offer:renegotiation")
			s.do("offer %d %s %s %s %s", c, st.id, label, repl, st.spec)
			return
		}
	}
	s.do("offer %d %s %s %s %s", c, id, label, repl, spec)
	ok := s.cl[c].alive && s.cl[c].group != "" && s.cl[c].present
	if !ok {
		s.t.Count("offer:refused")
		return
	}
	st := &gstream{id: id, owner: c, spec: spec, arrived: make([]bool, len(spec)), live: true}
	s.streams = append(s.streams, st)
	if s.pending == 0 {
		s.pending = 1
	}
	switch r.Intn(14) {
	case 0, 1, 2: // the first push happens before any track has arrived
		s.t.Count("offer:settle-first")
		s.settle()
		s.pushTracks(st, true)
	case 3: // somebody joins / requests inside the 200 ms window
		s.t.Count("offer:window-op")
		s.windowOp()
		s.pushTracks(st, true)
	case 4, 5:
		s.pushTracks(st, false)
	default:
		s.pushTracks(st, true)
	}
}

// windowOp: an op by another client while a delayed push is pending
func (s *scen) windowOp() {
	r := s.r
	var idle []int
	for i, c := range s.cl {
		if i < 5 && c.alive && c.group == "" {
			idle = append(idle, i)
		}
	}
	j := s.joined()
	if len(j) > 1 && r.Intn(3) == 0 {
		// a member moves to the other group while the push is pending
		c := common.Pick(r, j...)
		if len(s.liveStreams(c)) == 0 {
			g := "h"
			if s.cl[c].group == "h" {
				g = "g"
			}
			role := s.cl[c].role
			s.t.Count("window:move-group")
			s.do("leave %d", c)
			s.gone(c, false)
			s.join(c, g, role)
			s.do("request %d %s", c, s.randRequest())
			return
		}
	}
	if len(idle) > 0 && r.Intn(2) == 0 {
		c := common.Pick(r, idle...)
		g := "g"
		if len(j) > 0 {
			g = s.cl[common.Pick(r, j...)].group
		}
		s.join(c, g, common.Pick(r, "v", "p"))
		s.do("request %d %s", c, s.randRequest())
	} else if len(j) > 0 {
		s.do("request %d %s", common.Pick(r, j...), s.randRequest())
	}
}

func (s *scen) join(c int, g, role string) {
	s.do("join %d %s %s", c, g, role)
	s.cl[c].group = g
	s.cl[c].role = role
	s.cl[c].present = role != "v"
}

func (s *scen) gone(c int, dead bool) {
	s.endStreams(c)
	s.cl[c].group = ""
	s.cl[c].present = false
	if dead {
		s.cl[c].alive = false
	}
}

func scenario(t *common.Trace, e common.Engine, r *common.Rng, wide bool, nsteps int) {
	s := &scen{t: t, e: e, r: r}
	for i := range s.cl {
		s.cl[i].alive = true
	}
	two := r.Intn(3) == 0
	n := r.Range(3, 5)
	// initial population: an operator, publishers, observers
	for c := 0; c < n; c++ {
		role := common.Pick(r, "p", "p", "v", "o")
		if c == 0 {
			role = common.Pick(r, "o", "o", "p")
		}
		g := "g"
		if two && c >= 2 && r.Intn(2) == 0 {
			g = "h"
		}
		if r.Intn(6) == 0 {
			continue // joins later, or never
		}
		s.join(c, g, role)
		if r.Intn(5) != 0 {
			s.do("request %d %s", c, s.randRequest())
		}
	}
	for step := 0; step < nsteps && !s.dead; step++ {
		if s.pending > 0 && (s.pending >= 4 || r.Intn(2) == 0) {
			s.settle()
			continue
		}
		j := s.joined()
		var pubs []int
		for _, c := range j {
			if s.cl[c].present {
				pubs = append(pubs, c)
			}
		}
		live := s.liveStreams(-1)
		x := r.Intn(100)
		switch {
		case x < 22 && len(pubs) > 0:
			s.offer(common.Pick(r, pubs...), wide)
		case x < 40 && len(j) > 0:
			s.do("request %d %s", common.Pick(r, j...), s.randRequest())
		case x < 48 && len(live) > 0:
			st := common.Pick(r, live...)
			s.do("close %d %s", st.owner, st.id)
			st.live = false
		case x < 56 && len(live) > 0 && len(j) > 0:
			st := common.Pick(r, live...)
			c := common.Pick(r, j...)
			if c != st.owner && s.cl[c].group == s.cl[st.owner].group {
				s.do("reqstream %d %s %s", c, st.id, common.Pick(r, "a", "v", "l", "av", "al", "null", "0", "x"))
				// (a client that does not hold the stream is disconnected by the server)
				t.Count("reqstream")
			}
		case x < 62 && len(live) > 0 && len(j) > 0:
			st := common.Pick(r, live...)
			s.do("abort %d %s", common.Pick(r, j...), st.id)
		case x < 68 && len(live) > 0:
			// remaining tracks of a stream
			st := common.Pick(r, live...)
			s.pushTracks(st, r.Bool())
		case x < 73 && len(j) > 0:
			c := common.Pick(r, j...)
			s.do("leave %d", c)
			s.gone(c, false)
		case x < 77 && len(j) > 0:
			c := common.Pick(r, j...)
			s.do("disc %d", c)
			s.gone(c, true)
		case x < 83 && len(j) > 1:
			o, c := common.Pick(r, j...), common.Pick(r, j...)
			s.do("kick %d %d", o, c)
			if s.cl[o].role == "o" && s.cl[o].group == s.cl[c].group {
				s.gone(c, true)
			}
		case x < 89 && len(j) > 1:
			o, c := common.Pick(r, j...), common.Pick(r, j...)
			if r.Intn(3) == 0 {
				s.do("present %d %d", o, c)
				if s.cl[o].role == "o" && s.cl[o].group == s.cl[c].group {
					s.cl[c].present = true
				}
			} else {
				s.do("unpresent %d %d", o, c)
				if s.cl[o].role == "o" && s.cl[o].group == s.cl[c].group {
					s.cl[c].present = false
					s.endStreams(c)
				}
			}
		case x < 94:
			// somebody (re)joins
			var idle []int
			for i, c := range s.cl {
				if i < 5 && c.alive && c.group == "" {
					idle = append(idle, i)
				}
			}
			if len(idle) > 0 {
				c := common.Pick(r, idle...)
				g := "g"
				if two && r.Bool() {
					g = "h"
				}
				s.join(c, g, common.Pick(r, "p", "v", "o"))
				if r.Intn(4) != 0 {
					s.do("request %d %s", c, s.randRequest())
				}
			}
		case x < 97 && wide && len(j) > 0:
			// a subscriber that answers late
			c := common.Pick(r, j...)
			if s.cl[c].hold {
				if len(live) > 0 && r.Bool() {
					s.do("answer %d %s", c, common.Pick(r, live...).id)
				} else {
					s.do("unhold %d", c)
					s.cl[c].hold = false
				}
			} else {
				s.do("hold %d", c)
				s.cl[c].hold = true
			}
		case x < 100 && wide:
			// protocol errors: the server closes the connection
			var al []int
			for i, c := range s.cl {
				if i < 5 && c.alive {
					al = append(al, i)
				}
			}
			if len(al) == 0 {
				break
			}
			c := common.Pick(r, al...)
			switch {
			case s.cl[c].group == "" && r.Bool():
				s.do("request %d _=av", c)
				s.gone(c, true)
			case s.cl[c].group == "":
				s.do("leave %d", c)
				s.gone(c, true)
			default:
				s.do("join %d %s v", c, s.cl[c].group)
				s.gone(c, true)
			}
			t.Count("protocol-error")
		}
	}
	if s.pending > 0 {
		s.settle()
	}
}

// fixed scenarios that every run contains
var corpus = [][]string{
	{"join 0 g p", "join 1 g v", "join 2 h v", "request 1 _=av", "request 2 _=av", "offer 0 s1 cam - av",
		"track 0 s1 0 a", "track 0 s1 1 v", "settle", "request 1 _=a", "request 1 cam=v,_=a", "abort 1 s1",
		"request 1 cam=v", "close 0 s1", "leave 1"},
	{"join 0 g o", "join 1 g p", "join 2 g v", "request 2 _=al", "request 0 cam=v", "offer 1 s1 cam - vav", "settle",
		"track 1 s1 0 v", "settle", "track 1 s1 2 v", "track 1 s1 1 a", "settle", "offer 1 s2 cam s1 av",
		"track 1 s2 0 a", "track 1 s2 1 v", "settle", "reqstream 2 s2 v", "reqstream 2 s2 null", "reqstream 2 s2 0",
		"unpresent 0 1", "present 0 1", "offer 1 s3 scr - v", "track 1 s3 0 v", "settle", "kick 0 1"},
	// two presenters use the same stream id
	{"join 0 g p", "join 1 g p", "join 2 g v", "request 2 _=av", "offer 0 s1 cam - av", "track 0 s1 0 a", "track 0 s1 1 v",
		"settle", "offer 1 s1 cam - av", "track 1 s1 0 a", "track 1 s1 1 v", "settle", "close 1 s1"},
	// an offer whose `replace` names another presenter's stream
	{"join 0 g o", "join 1 g o", "join 2 g p", "request 2 _=l", "offer 1 s1 scr - aav", "track 1 s1 2 v", "settle",
		"offer 0 s5 cam s1 v", "settle"},
	// late answers, unexpected answers, a stream that replaces itself
	{"join 0 g p", "join 1 g v", "request 1 _=av", "offer 0 s1 cam - av", "track 0 s1 0 a", "settle", "answer 1 s1",
		"answer 1 s7", "request 1 _=al", "hold 1", "track 0 s1 1 v", "settle", "request 1 _=a", "request 1 _=v", "answer 1 s1",
		"answer 1 s1", "unhold 1", "offer 0 s2 cam s2 av", "settle"},
	// an offer that renegotiates an existing stream and names another one as `replace`
	{"join 0 g p", "join 1 g v", "request 1 _=av", "offer 0 s1 cam - av", "track 0 s1 0 a", "track 0 s1 1 v",
		"offer 0 s2 scr - v", "track 0 s2 0 v", "settle", "offer 0 s2 scr - v", "settle", "offer 0 s2 scr s1 v", "settle",
		"request 1 _=a"},
	// a member moves to another group while a push that lists it is pending
	{"join 0 g p", "join 1 g v", "request 1 _=av", "offer 0 s1 cam - av", "leave 1", "join 1 h v", "request 1 _=av",
		"track 0 s1 0 a", "track 0 s1 1 v", "settle", "leave 1", "join 1 g v", "request 1 _=av"},
	// the request map: an explicit empty entry for a label is "nothing of that label", not "use the default";
	// an absent label uses the default entry; an empty default leaves only the labelled entries
	{"join 0 g p", "join 1 g v", "join 2 g v", "request 1 scr=0,_=av", "request 2 cam=0,scr=v", "offer 0 s1 scr - av",
		"track 0 s1 0 a", "track 0 s1 1 v", "offer 0 s2 cam - av", "track 0 s2 0 a", "track 0 s2 1 v", "settle",
		"request 1 scr=v,_=0", "settle", "request 1 cam=0,_=a", "settle", "request 2 cam=0,scr=0,_=al", "settle",
		"offer 0 s3 scr s1 av", "track 0 s3 0 a", "track 0 s3 1 v", "settle"},
	// a stream is replaced by one of which the subscriber requests nothing: the replaced stream must still be closed
	{"join 0 g p", "join 1 g v", "join 2 g v", "request 1 _=a", "request 2 _=av", "offer 0 s1 cam - av", "track 0 s1 0 a",
		"track 0 s1 1 v", "settle", "offer 0 s2 cam s1 v", "track 0 s2 0 v", "settle", "close 0 s2", "settle"},
	// the replacement is closed again before its delayed push
	{"join 0 g p", "join 1 g v", "request 1 _=av", "offer 0 s1 cam - av", "track 0 s1 0 a", "track 0 s1 1 v", "settle",
		"offer 0 s2 cam s1 av", "close 0 s2", "settle"},
	// two replacements in a row, the second before the delayed push of the first: the first stream must go too
	{"join 0 g p", "join 1 g v", "request 1 _=av", "offer 0 s1 cam - av", "track 0 s1 0 a", "track 0 s1 1 v", "settle",
		"offer 0 s2 cam s1 av", "offer 0 s3 cam s2 av", "track 0 s3 0 a", "track 0 s3 1 v", "settle"},
	// one subscriber changes its request while the announcement of a new stream is still pending (200 ms): the other
	// subscribers must still be offered the stream (and be told when the stream it replaces goes away)
	{"join 0 g p", "join 1 g v", "join 2 g v", "request 1 _=av", "request 2 _=av", "offer 0 s1 cam - av", "track 0 s1 0 a",
		"track 0 s1 1 v", "request 1 _=a", "settle", "offer 0 s2 cam s1 av", "track 0 s2 0 a", "track 0 s2 1 v", "request 1 _=av",
		"settle", "close 0 s2", "request 2 _=a", "settle"},
	{"join 0 g p", "join 1 g v", "join 2 g v", "join 3 g v", "request 1 _=av", "request 2 _=al", "offer 0 s1 scr - av", "track 0 s1 0 a",
		"track 0 s1 1 v", "join 3 g v", "request 3 _=av", "reqstream 2 s1 a", "settle"},
	// a member that joins and requests between a publisher's offer and the arrival of its tracks
	{"join 0 g p", "offer 0 s1 cam - av", "join 1 g v", "request 1 _=av", "track 0 s1 0 a", "track 0 s1 1 v", "settle"},
}

func gen(t *common.Trace, e common.Engine, r *common.Rng, thorough bool) {
	// consecutive VERIF_SEEDs give splitmix streams that are shifted copies of each other: re-seed from an
	// output value, so that the seeds of the thorough tier generate different scenarios
	r = common.NewRng(r.U64() >> 3)
	for i, ops := range corpus {
		t.Case(fmt.Sprintf("corpus%d", i))
		e.Reset()
		for _, op := range ops {
			if strings.HasPrefix(common.Do(t, e, op), "env:") {
				t.Count("abandoned:corpus")
				break
			}
		}
	}
	// a track that arrives while the previous track's delayed push is being distributed (own verdict)
	for i := 0; i < 2; i++ {
		t.Case(fmt.Sprintf("pushrace%d", i))
		e.Reset()
		common.Do(t, e, "pushrace")
	}
	ncases := 9
	if thorough {
		ncases = 260
	}
	for ci := 0; ci < ncases; ci++ {
		t.Case(fmt.Sprint(ci))
		e.Reset()
		nsteps := r.Range(8, 16)
		if thorough {
			nsteps = r.Range(8, 28)
		}
		scenario(t, e, r, thorough && ci%2 == 1, nsteps)
	}
	e.Reset()
}

func main() {
	defer func() {
		if srvDir != "" {
			os.RemoveAll(srvDir)
		}
	}()
	common.Main(&eng{}, gen)
}
