package main

// pushrace: a self-contained scenario with its own verdict (no model step): a publisher's second
// track arrives while the delayed push of the first one is being distributed.  A mock member of
// the group (not a web client; invisible to what is judged) holds the distribution inside its own
// PushConn until the real OnTrack of the second track has fired on the server.  C07: once
// everything has settled, the subscriber that asked for audio and video of every stream has been
// offered both tracks of the stream (the last offer it received for the stream holds them).

import (
	"net"
	"strings"
	"sync"
	"time"

	"github.com/jech/galene/conn"
	"github.com/jech/galene/group"
	"github.com/jech/galene/rtpconn"
)

type gateMember struct {
	mu      sync.Mutex
	g       *group.Group
	armed   bool
	once    sync.Once
	entered chan struct{}
	release chan struct{}
}

func (m *gateMember) Group() *group.Group             { m.mu.Lock(); defer m.mu.Unlock(); return m.g }
func (m *gateMember) Addr() net.Addr                  { return nil }
func (m *gateMember) Id() string                      { return "zz-gate" }
func (m *gateMember) Username() string                { return "" }
func (m *gateMember) Init(u string, p []string)       {}
func (m *gateMember) Permissions() []string           { return []string{"system"} }
func (m *gateMember) Data() map[string]interface{}    { return nil }
func (m *gateMember) Joined(group, kind string) error { return nil }
func (m *gateMember) RequestConns(target group.Client, g *group.Group, id string) error {
	return nil
}
func (m *gateMember) PushClient(group, kind, id, username string, perms []string, data map[string]interface{}) error {
	return nil
}
func (m *gateMember) Kick(id string, user *string, message string) error { return nil }
func (m *gateMember) PushConn(g *group.Group, id string, up conn.Up, tracks []conn.UpTrack, replace string) error {
	m.mu.Lock()
	armed := m.armed
	m.mu.Unlock()
	if armed && len(tracks) > 0 {
		first := false
		m.once.Do(func() { first = true })
		if first {
			close(m.entered)
			<-m.release
		}
	}
	return nil
}

func (e *eng) pushrace() string {
	for _, op := range []string{"join 0 g p", "join 1 g v", "request 1 _=av", "offer 0 s1 cam - av"} {
		if r := e.Exec(strings.Fields(op)); strings.HasPrefix(r, "env:") {
			return r
		}
	}
	c0 := e.client(0)
	gate := &gateMember{entered: make(chan struct{}), release: make(chan struct{})}
	g, err := group.AddClient(e.groupName("g"), gate, group.ClientCredentials{})
	if err != nil {
		return "env:gate:" + strings.ReplaceAll(err.Error(), " ", "_")
	}
	gate.mu.Lock()
	gate.g = g
	gate.armed = true
	gate.mu.Unlock()
	released := false
	rel := func() {
		if !released {
			released = true
			close(gate.release)
		}
	}
	defer func() {
		rel()
		group.DelClient(gate)
	}()
	e.doTrack(c0, "s1", 0) // audio: OnTrack fires, a push is scheduled 200 ms later
	select {
	case <-gate.entered: // the push is being distributed, its snapshot holds the audio track only
	case <-time.After(3 * time.Second):
		return "env:the_delayed_push_did_not_reach_the_gate"
	}
	e.doTrack(c0, "s1", 1) // video arrives while the push is in progress
	rel()
	time.Sleep(pushDelay + 60*time.Millisecond)
	if !waitFor(3*time.Second, func() bool { return rtpconn.VerifPendingPushes() == 0 }) {
		return "env:delayed_push_did_not_happen"
	}
	e.quiesce()
	e.earliest, e.latest = time.Time{}, time.Time{}
	// the subscriber's offers of s1, in order
	e.mu.Lock()
	last := ""
	for _, ev := range e.cs[1].events {
		if strings.HasPrefix(ev.tok, "O1/s1/") {
			last = ev.tok
		}
	}
	e.mu.Unlock()
	e.collect()
	if last == "" {
		return "bad:subscriber-was-never-offered-the-stream"
	}
	f := strings.Split(last, "/")
	tracks := f[len(f)-1]
	if !strings.Contains(tracks, "a0") || !strings.Contains(tracks, "v1") {
		return "bad:last-offer-lacks-a-track-that-arrived-during-the-push:" + tracks
	}
	return "ok"
}
