package main

// Generator for the `sig` engine: message sequences from the protocol grammar
// (every type x kind) sent by clients in every membership state (never joined,
// join refused, redirected, joined, left; kicked/closed connections are dead),
// with permission sets from the role table, explicit lists and tokens, before
// and after moderation; interleaved with action-loop steps in three schedule
// styles (sequential, lazy, adversarial).  A fraction of the cases are directed
// scripts for the defects listed in DESIGN.md section 6.

import (
	"fmt"
	"regexp"
	"strings"

	"github.com/jech/galene/zzverif/common"
)

type gclient struct {
	id      string
	user    string // what the generator believes c.username is
	group   string // "" if not joined (as far as the generator knows)
	dead    bool
	refused bool
	up      string
}

type gstate struct {
	t        *common.Trace
	e        common.Engine
	r        *common.Rng
	thorough bool
	cl       []*gclient
	groups   []string
	users    map[string][][2]string // group -> (user, pw)
	rnames   []string
	toks     []string
	mock     string
	mockG    string
	histAge  map[string]int // group -> largest age that may still be inserted (entries are stored oldest first)
	blocking bool
	sleeps   *int
	maxSleep int
	chatIds  []string
}

var reR = regexp.MustCompile(`R\d+`)

func (g *gstate) do(op string) string {
	res := common.Do(g.t, g.e, op)
	for _, m := range reR.FindAllString(res, -1) {
		found := false
		for _, x := range g.rnames {
			if x == m {
				found = true
			}
		}
		if !found {
			g.rnames = append(g.rnames, m)
		}
	}
	return res
}

type gtemplate struct {
	spec  string
	users [][2]string
}

var templates = []gtemplate{
	{"u=alice:pw:op u=bob:pw:present u=carl:pw:message u=dora:pw:observe w=*:message", [][2]string{{"alice", "pw"}, {"bob", "pw"}, {"carl", "pw"}, {"dora", "pw"}, {"zed", "any"}}},
	{"u=alice:pw:op u=bob:pw:present u=carl:pw:[message+caption] w=*:observe rec", [][2]string{{"alice", "pw"}, {"bob", "pw"}, {"carl", "pw"}, {"yan", "x"}}},
	{"u=alice:pw:op u=anna:pw:op u=bob:pw:present u=carl:pw:caption utok", [][2]string{{"alice", "pw"}, {"anna", "pw"}, {"bob", "pw"}, {"carl", "pw"}}},
	{"u=alice:pw:[op+present+message+token+record] u=bob:pw:[present+message+token] u=carl:pw:[] w=pw:[message] age=3600", [][2]string{{"alice", "pw"}, {"bob", "pw"}, {"carl", "pw"}, {"walt", "pw"}}},
	{"u=alice:pw:op u=bob:pw:present w=*:message alock", [][2]string{{"alice", "pw"}, {"bob", "pw"}, {"will", "pw"}}},
	{"u=alice:pw:op u=bob:pw:present w=*:message akick", [][2]string{{"alice", "pw"}, {"bob", "pw"}, {"will", "pw"}}},
	{"u=alice:pw:op u=bob:pw:present w=*:message max=2", [][2]string{{"alice", "pw"}, {"bob", "pw"}, {"will", "pw"}, {"xena", "pw"}}},
	{"u=alice:pw:op u=bob:pw:present w=*:message auto rec utok", [][2]string{{"alice", "pw"}, {"bob", "pw"}, {"will", "pw"}}},
	{"u=alice:pw:op u=bob::present u=carl:pw:admin w=*:present closed", [][2]string{{"alice", "pw"}, {"bob", ""}, {"carl", "pw"}, {"will", "pw"}}},
	{"u=alice:pw:op u=bob:pw:present w=*:message notyet age=100", [][2]string{{"alice", "pw"}, {"bob", "pw"}, {"will", "pw"}}},
	{"u=alice:pw:op u=bob:pw:present w=*:message redir=https%3A%2F%2Fexample.org%2Fgroup%2Fg9%2F", [][2]string{{"alice", "pw"}, {"bob", "pw"}, {"will", "pw"}}},
}

func (g *gstate) pickGroup() string {
	return g.groups[g.r.Intn(len(g.groups))]
}

func (g *gstate) live() []int {
	var out []int
	for i, c := range g.cl {
		if !c.dead {
			out = append(out, i)
		}
	}
	return out
}

func (g *gstate) anyId() string {
	r := g.r
	switch r.Intn(12) {
	case 0:
		return "nobody"
	case 1:
		if g.mock != "" {
			return g.mock
		}
	case 2, 3:
		if len(g.rnames) > 0 {
			return g.rnames[len(g.rnames)-1-r.Intn((len(g.rnames)+1)/2)]
		}
	}
	return g.cl[r.Intn(len(g.cl))].id
}

// fields every message may carry: source and username, mostly right
func (g *gstate) ident(i int) string {
	r := g.r
	c := g.cl[i]
	s := ""
	switch r.Weighted(120, 76, 2) {
	case 0:
		s += " src=" + c.id
	case 2:
		s += " src=" + g.cl[(i+1)%len(g.cl)].id + common.Pick(r, "", "x")
	}
	switch r.Weighted(90, 106, 2) {
	case 1:
		s += " u=" + c.user
	case 2:
		s += " u=mallory"
	}
	return s
}

var words = []string{"hello", "hi", "x1", "x2", "lorem", ""}

func (g *gstate) value() string {
	r := g.r
	switch r.Weighted(70, 8, 8, 6, 4, 4) {
	case 0:
		return "v=s." + words[r.Intn(len(words))]
	case 1:
		return "v=i." + fmt.Sprint(r.Intn(100))
	case 2:
		return "v=m.a~s.b!n~i.3"
	case 3:
		return "v=b.1"
	case 4:
		return "v=l.a+b"
	}
	return ""
}

func (g *gstate) dataVal() string {
	r := g.r
	switch r.Intn(8) {
	case 0:
		return "v=m.k1~n"
	case 1:
		return "v=m.k1~s.v" + fmt.Sprint(r.Intn(3)) + "!k2~i." + fmt.Sprint(r.Intn(9))
	case 2:
		return "v=s.notamap"
	case 3:
		return ""
	case 4:
		return "v=m.k2~n!k3~b.1"
	case 5:
		return "v=m."
	}
	return "v=m.k1~s.v" + fmt.Sprint(r.Intn(5))
}

func (g *gstate) joinMsg(i int) string {
	r := g.r
	c := g.cl[i]
	gn := g.pickGroup()
	if r.Intn(25) == 0 {
		gn = common.Pick(r, "nosuch", "", "a%2F..%2Fb", gn+"%2Fsub", gn+"%2Fsub")
	}
	us := g.users[strings.Split(gn, "%2F")[0]]
	if len(us) == 0 {
		us = [][2]string{{"alice", "pw"}}
	}
	u := us[r.Intn(len(us))]
	m := "t=join k=join g=" + gn
	mode := r.Weighted(70, 8, 6, 4, 4, 4, 4)
	if mode == 1 && len(g.toks) == 0 {
		mode = 0
	}
	if (mode == 2 || mode == 1 && r.Intn(3) == 0) && *g.sleeps >= g.maxSleep {
		mode = 0
	}
	switch mode {
	case 0:
		m += " u=" + u[0] + " pw=" + u[1]
		c.user = u[0]
	case 1: // token
		tk := g.toks[r.Intn(len(g.toks))]
		if r.Intn(3) == 0 && len(g.rnames) > 0 {
			tk = g.rnames[r.Intn(len(g.rnames))]
		}
		m += " tok=" + tk
		if r.Intn(3) > 0 {
			nm := common.Pick(r, "tim", "tom", "alice", "")
			m += " u=" + nm
			c.user = nm
		}
		*g.sleeps++ // may or may not be refused
	case 2: // wrong password
		m += " u=" + u[0] + " pw=wrong"
		*g.sleeps++
	case 3: // no credentials at all
	case 4: // password but no username
		m += " pw=" + u[1]
	case 5: // odd usernames
		if *g.sleeps < g.maxSleep {
			m += " u=" + common.Pick(r, "..", "a%2Fb", "a%5Cb", "") + " pw=" + u[1]
			*g.sleeps++
		} else {
			m += " u=" + u[0] + " pw=" + u[1]
			c.user = u[0]
		}
	case 6:
		m += " u=" + u[0] + " pw=" + u[1] + " src=" + c.id
		c.user = u[0]
	}
	if r.Intn(4) == 0 {
		m += " d=m.k1~s.init"
	}
	return m
}

func (g *gstate) tokenVal(gn string) string {
	r := g.r
	var f []string
	if r.Intn(10) > 0 {
		gg := gn
		if r.Intn(8) == 0 {
			gg = common.Pick(r, "g2", "", "other")
		}
		f = append(f, "group~s."+gg)
	}
	switch r.Weighted(60, 10, 8, 8, 6, 4, 4) {
	case 0:
		f = append(f, "expires~i.3600000")
	case 1:
		f = append(f, "expires~s.2099-01-01T00%3A00%3A00Z")
	case 2:
		f = append(f, "expires~i.-3600000")
	case 3:
	case 4:
		f = append(f, "expires~s.tomorrow")
	case 5:
		f = append(f, "expires~b.1")
	case 6:
		f = append(f, "expires~s.2001-01-01T00%3A00%3A00Z")
	}
	switch r.Weighted(30, 15, 15, 10, 10, 8, 6, 6, 8) {
	case 8: // a list that names a permission twice (nothing deduplicates it; a revocation must remove both)
		f = append(f, "permissions~l."+common.Pick(r, "present+present", "present+message+present", "message+present+message", "present+message+message+present"))
	case 0:
		f = append(f, "permissions~l.present+message")
	case 1:
		f = append(f, "permissions~l.message")
	case 2:
		f = append(f, "permissions~l.op+present+message+token")
	case 3:
		f = append(f, "permissions~l.record")
	case 4:
		f = append(f, "permissions~l.")
	case 5:
	case 6:
		f = append(f, "permissions~s.op")
	case 7:
		f = append(f, "permissions~l.present+message+caption")
	}
	switch r.Weighted(60, 15, 10, 8, 7) {
	case 1:
		f = append(f, "username~s.tim")
	case 2:
		f = append(f, "username~s.alice")
	case 3:
		f = append(f, "username~i.5")
	case 4:
		f = append(f, "username~s.")
	}
	if r.Intn(12) == 0 {
		f = append(f, "token~s.mine")
	}
	if r.Intn(8) == 0 {
		f = append(f, "not-before~"+common.Pick(r, "i.3600000", "i.-3600000", "s.bad"))
	}
	return "v=m." + strings.Join(f, "!")
}

func (g *gstate) editVal() string {
	r := g.r
	var f []string
	id := "nonesuch"
	pool := append(append([]string{}, g.toks...), g.rnames...)
	if len(pool) > 0 && r.Intn(8) > 0 {
		id = pool[r.Intn(len(pool))]
	}
	if r.Intn(15) > 0 {
		f = append(f, "token~s."+id)
	}
	switch r.Weighted(40, 30, 10, 10, 10) {
	case 0:
		f = append(f, "expires~i.-3600000")
	case 1:
		f = append(f, "expires~i.7200000")
	case 2:
		f = append(f, "not-before~i.3600000")
	case 3:
		f = append(f, "expires~s.never")
	}
	switch r.Intn(14) {
	case 0:
		f = append(f, "group~s.g1")
	case 1:
		f = append(f, "permissions~l.op")
	case 2:
		f = append(f, "username~s.tim")
	}
	if r.Intn(20) == 0 {
		return "v=s.notamap"
	}
	return "v=m." + strings.Join(f, "!")
}

// one client message, mostly sensible for the client's state
func (g *gstate) message(i int) string {
	r := g.r
	c := g.cl[i]
	member := c.group != ""
	var w []int
	if member {
		//            join chat umsg uact gact leave media misc  junk
		w = []int{1, 52, 16, 46, 46, 7, 14, 8, 1}
	} else {
		w = []int{110, 16, 6, 14, 16, 6, 22, 10, 2}
	}
	switch r.Weighted(w...) {
	case 0:
		return g.joinMsg(i)
	case 1:
		m := "t=chat"
		if k := r.Weighted(60, 20, 10, 10, 6, 3); k > 0 {
			// (kinds are not validated: also the kinds of other message types)
			m += " k=" + []string{"", "me", "caption", "odd", "join", "leave"}[k]
		}
		if r.Intn(5) == 0 {
			m += " dst=" + g.anyId()
		}
		if r.Intn(4) == 0 {
			m += " ne=1"
		}
		if r.Intn(6) == 0 {
			m += " id=i" + fmt.Sprint(r.Intn(6))
		}
		return m + " " + g.value() + g.ident(i)
	case 2:
		m := "t=usermessage k=" + common.Pick(r, "info", "error", "mute", "kicked", "clearchat", "token", "", "join", "change")
		if r.Intn(3) > 0 {
			m += " dst=" + g.anyId()
		}
		if r.Intn(4) == 0 {
			m += " ne=1"
		}
		return m + " " + g.value() + g.ident(i)
	case 3:
		k := common.Pick(r, "op", "unop", "present", "unpresent", "shutup", "unshutup", "kick", "identify", "setdata", "setdata", "bogus")
		if r.Intn(30) > 0 && k == "bogus" {
			k = "op"
		}
		m := "t=useraction k=" + k
		dst := g.anyId()
		if k == "setdata" && r.Intn(5) > 0 {
			dst = c.id
		}
		if r.Intn(20) > 0 {
			m += " dst=" + dst
		}
		if k == "setdata" {
			m += " " + g.dataVal()
		} else if k == "kick" && r.Bool() {
			m += " v=s.bye"
		}
		return m + g.ident(i)
	case 4:
		k := common.Pick(r, "lock", "unlock", "clearchat", "clearchat", "setdata", "subgroups", "record", "unrecord",
			"maketoken", "maketoken", "edittoken", "listtokens", "bogus", "unlock", "setdata", "subgroups", "clearchat")
		if r.Intn(30) > 0 && k == "bogus" {
			k = "lock"
		}
		m := "t=groupaction k=" + k
		switch k {
		case "lock":
			if r.Bool() {
				m += " v=s.locked%20now"
			} else if r.Intn(4) == 0 {
				m += " v=i.3"
			}
		case "clearchat":
			switch r.Intn(8) {
			case 0:
				m += " v=s.foo"
			case 1:
				m += " v=m.id~s.i1"
			case 2, 3:
				m += " v=m.userId~s." + g.anyId()
			case 4:
				id := "i1"
				if len(g.rnames) > 0 {
					id = g.rnames[r.Intn(len(g.rnames))]
				}
				m += " v=m.id~s." + id + "!userId~s." + g.anyId()
			case 5:
				m += " v=m.id~i.4!userId~b.1"
			}
		case "setdata":
			m += " " + g.dataVal()
		case "maketoken":
			gn := c.group
			if gn == "" {
				gn = "g1"
			}
			m += " " + g.tokenVal(gn)
		case "edittoken":
			m += " " + g.editVal()
		}
		return m + g.ident(i)
	case 5:
		gn := c.group
		if gn == "" || r.Intn(10) == 0 {
			gn = g.pickGroup()
		}
		return "t=join k=" + common.Pick(r, "leave", "leave", "leave", "leave", "leave", "leave", "leave", "leave", "part") + " g=" + gn + g.ident(i)
	case 6:
		id := common.Pick(r, "s1", "s2", "s1", "s2", "s1", "s2", "s1", "")
		if c.up != "" && r.Bool() {
			id = c.up
		}
		switch r.Intn(9) {
		case 0, 1:
			m := "t=offer sdp=bad"
			if !member && r.Intn(3) == 0 {
				m = "t=offer sdp=ok"
			}
			if id != "" {
				m += " id=" + id
			}
			if r.Intn(4) == 0 {
				m += " rep=" + common.Pick(r, "s1", "s2", c.up+"z")
			}
			return m + g.ident(i)
		case 2:
			return "t=answer id=" + id + g.ident(i)
		case 3:
			return "t=renegotiate id=" + id
		case 4:
			return "t=close id=" + id + g.ident(i)
		case 5:
			return "t=abort id=" + id
		case 6:
			m := "t=ice id=" + id
			if r.Intn(3) > 0 {
				m += " cand=1"
			}
			return m
		case 7:
			return "t=request " + common.Pick(r, "req=m.~l.audio+video", "req=m.~l.", "", "req=m.~l.audio", "req=m.cam~l.video!~l.audio", "req=m.~l.audio+video", common.Pick(r, "req=s.x", "req=m.a~s.b"))
		}
		if r.Intn(4) > 0 {
			return "t=pong"
		}
		return "t=requestStream id=" + id + " req=l.audio"
	case 7:
		return common.Pick(r, "t=ping", "t=pong", "t=ping", "t=handshake")
	}
	return "t=" + common.Pick(r, "bogus", "joined", "user", "", "chathistory") + g.ident(i)
}

func (g *gstate) note(i int, op, res string) {
	c := g.cl[i]
	if strings.HasPrefix(res, "err:") || strings.HasPrefix(res, "panic:") {
		c.dead = true
		c.group = ""
		return
	}
	f := strings.Fields(op)
	kv := map[string]string{}
	for _, x := range f {
		if j := strings.IndexByte(x, '='); j >= 0 {
			kv[x[:j]] = x[j+1:]
		}
	}
	if kv["t"] == "join" && kv["k"] == "join" && strings.HasPrefix(res, "ok") {
		if strings.Contains(res, fmt.Sprintf("q%d=joined:", i)) && !strings.Contains(res, "joined:redirect") {
			c.group = kv["g"]
			c.refused = false
		} else if strings.Contains(res, "joined:fail") || strings.Contains(res, "joined:redirect") {
			c.refused = true
		}
	}
	if kv["t"] == "join" && kv["k"] == "leave" && strings.Contains(res, fmt.Sprintf("q%d=joined:", i)) {
		c.group = ""
		c.up = ""
	}
}

// after a quiescence: who was closed by an action?
func (g *gstate) refresh() {
	res := g.do("probe")
	for _, tok := range strings.Fields(res) {
		var i int
		if _, err := fmt.Sscanf(tok, "c%d=", &i); err != nil || i >= len(g.cl) {
			continue
		}
		p := strings.Split(tok[strings.IndexByte(tok, '=')+1:], "/")
		if len(p) < 7 {
			continue
		}
		c := g.cl[i]
		c.dead = p[0] == "D"
		if p[1] == "%" {
			c.group = ""
		} else {
			c.group = p[1]
		}
		c.up = ""
		if p[5] != "" {
			c.up = strings.Split(strings.Split(p[5], ",")[0], "~")[0]
		}
	}
}

func (g *gstate) newClient() {
	id := fmt.Sprintf("c%d", len(g.cl))
	if g.r.Intn(40) == 0 && len(g.cl) > 0 {
		id = g.cl[0].id // duplicate id
	}
	if g.r.Intn(80) == 0 {
		id = ""
	}
	if id == "" {
		g.do(fmt.Sprintf("client %d -", len(g.cl)))
	} else {
		g.do(fmt.Sprintf("client %d %s", len(g.cl), id))
	}
	g.cl = append(g.cl, &gclient{id: id})
}

func (g *gstate) setup(ngroups int) {
	r := g.r
	g.users = map[string][][2]string{}
	names := []string{"g1", "g2", "g3"}
	for k := 0; k < ngroups; k++ {
		tp := templates[r.Intn(4)]
		if r.Intn(100) < 18 {
			tp = templates[4+r.Intn(len(templates)-4)]
		}
		g.do("group " + names[k] + " " + tp.spec)
		g.groups = append(g.groups, names[k])
		g.users[names[k]] = tp.users
	}
	// pre-made tokens, some for groups the clients will not be in
	nt := r.Intn(3)
	for k := 0; k < nt; k++ {
		name := fmt.Sprintf("tk%d", k)
		gn := common.Pick(r, "g1", "g1", "g2", "other", "g1x", "g1/sub", "g") // (incl. names that extend or are extended by a group's name)
		user := common.Pick(r, "%", "%", "tim", "alice")
		perms := common.Pick(r, "present+message", "message", "op+present+message", "-", "present+message+token", "[]",
			"present+present", "op+present+op+message") // (no `record` from a token: recording in an autokick group is outside the model, see autoLockKick)
		exp := common.Pick(r, "F", "F", "F", "P", "-")
		nbf := common.Pick(r, "-", "-", "-", "F", "P")
		g.do(fmt.Sprintf("tok %s %s %s %s %s %s", name, gn, user, perms, exp, nbf))
		g.toks = append(g.toks, name)
	}
}

func (g *gstate) schedule(style int) {
	r := g.r
	if g.blocking {
		// single steps only while a mock can park a broadcast
		for k := r.Intn(4); k > 0; k-- {
			l := g.live()
			if len(l) == 0 {
				return
			}
			g.do(fmt.Sprintf("a %d", l[r.Intn(len(l))]))
		}
		return
	}
	switch style {
	case 0:
		g.do("q")
	case 1:
		if r.Intn(4) > 0 {
			g.do("q")
		} else if r.Bool() {
			l := g.live()
			if len(l) > 0 {
				g.do(fmt.Sprintf("a %d", l[r.Intn(len(l))]))
			}
		}
	default:
		for k := r.Intn(4); k > 0; k-- {
			l := g.live()
			if len(l) == 0 {
				return
			}
			g.do(fmt.Sprintf("a %d", l[r.Intn(len(l))]))
		}
		if r.Intn(5) == 0 {
			g.do("q")
		}
	}
}

func (g *gstate) randomCase(n int) {
	r := g.r
	g.setup(1 + r.Weighted(70, 25, 5))
	style := r.Weighted(60, 25, 15)
	g.t.Count(fmt.Sprintf("style:%d", style))
	ncl := r.Range(2, 5)
	for k := 0; k < ncl-1; k++ {
		g.newClient()
	}
	steps := r.Range(12, 45)
	if g.thorough {
		steps = r.Range(12, 90)
	}
	useMock := r.Intn(6) == 0
	if r.Intn(4) > 0 {
		// start from a populated group
		for i := range g.cl {
			if r.Intn(6) == 0 {
				continue
			}
			m := g.joinMsg(i)
			res := g.do(fmt.Sprintf("m %d %s", i, m))
			g.note(i, m, res)
			g.t.Count("msg:join/join@out")
			if style == 0 || r.Bool() {
				g.do("q")
			}
		}
	}
	for s := 0; s < steps; s++ {
		l := g.live()
		if len(l) == 0 || (len(g.cl) < ncl+2 && r.Intn(15) == 0) {
			if len(g.cl) >= 9 {
				break
			}
			g.newClient()
			continue
		}
		i := l[r.Intn(len(l))]
		c := g.cl[i]
		switch x := r.Intn(100); {
		case x < 2:
			res := g.do(fmt.Sprintf("drop %d", i))
			g.note(i, "", "err:"+res)
		case x < 5 && c.group != "":
			g.do(fmt.Sprintf("addup %d %s", i, common.Pick(r, "s1", "s2")))
			c.up = "s1"
		case x < 7 && c.group != "":
			src := g.anyId()
			if src == "" {
				src = "-"
			}
			// real timestamps never decrease along the history: only insert
			// entries that are not older than what is already there
			lim, ok := g.histAge[c.group]
			if !ok {
				lim = 100000
			}
			age := common.Pick(r, 0, 50, 200, 4000, 20000)
			if age > lim {
				age = lim
			}
			g.histAge[c.group] = age
			g.do(fmt.Sprintf("hist %s h%d %s %s %d %s s.old", c.group, r.Intn(5), src, common.Pick(r, "%", "alice", "bob"),
				age, common.Pick(r, "-", "me")))
		case x < 10 && useMock:
			switch {
			case g.mock == "":
				g.mockG = g.pickGroup()
				res := g.do("mock " + g.mockG + " mk")
				if strings.HasPrefix(res, "ok") {
					g.mock = "mk"
				}
			case !g.blocking && r.Bool():
				g.do("block mk 1")
				g.blocking = true
			case g.blocking && r.Bool():
				g.do("release mk 0")
			case g.blocking:
				g.do("block mk 0")
				g.blocking = false
				for strings.HasPrefix(g.do("release mk 0"), "ok") {
				}
			default:
				g.do("unmock mk")
			}
		default:
			m := g.message(i)
			if strings.HasPrefix(m, "t=chat") && c.group != "" {
				g.histAge[c.group] = 0
			}
			g.t.Count("msg:" + msgKey(m, c))
			// a token request whose rewrite of the token file fails (C16: a refused update has no effect)
			faulty := (strings.Contains(m, "k=edittoken") || strings.Contains(m, "k=maketoken")) && r.Intn(3) == 0
			if faulty {
				g.t.Count("fault:token-file")
				g.do("fault 1")
			}
			res := g.do(fmt.Sprintf("m %d %s", i, m))
			if faulty {
				g.do("fault 0")
			}
			g.note(i, m, res)
		}
		g.schedule(style)
		if r.Intn(6) == 0 {
			g.refresh()
		}
	}
	if g.blocking {
		g.do("block mk 0")
		g.blocking = false
		for strings.HasPrefix(g.do("release mk 0"), "ok") {
		}
	}
	g.do("q")
	g.do("probe")
}

func msgKey(m string, c *gclient) string {
	t, k := "", ""
	for _, x := range strings.Fields(m) {
		if strings.HasPrefix(x, "t=") {
			t = x[2:]
		}
		if strings.HasPrefix(x, "k=") {
			k = x[2:]
		}
	}
	st := "out"
	if c.group != "" {
		st = "in"
	} else if c.refused {
		st = "refused"
	}
	return t + "/" + k + "@" + st
}

// ---------------------------------------------------------------------------
// directed scripts

func (g *gstate) script(lines ...string) {
	for _, l := range lines {
		g.do(l)
	}
}

func (g *gstate) directed(k int) {
	r := g.r
	switch k {
	case 0: // P10: refused join keeps permissions; offer reaches newUpConn with a nil group
		reason := r.Intn(4)
		spec := "u=alice:pw:op u=bob:pw:present w=*:message"
		if reason == 1 {
			spec += " max=1"
		} else if reason == 2 {
			spec += " closed"
		} else if reason == 3 {
			spec += " akick"
		}
		g.script("group g1 "+spec, "client 0 c0", "client 1 c1", "m 0 t=join k=join g=g1 u=alice pw=pw", "q")
		if reason == 0 {
			g.script("m 0 t=groupaction k=lock" + common.Pick(r, "", " v=s.closed%20for%20today"))
		}
		if reason == 3 {
			g.script("m 0 t=join k=leave g=g1")
		}
		g.script("q", "m 1 t=join k=join g=g1 u=bob pw=pw")
		if r.Bool() {
			g.script("probe")
		}
		g.script("m 1 t=chat v=s.hello", "m 1 t=offer id=s1 sdp="+common.Pick(r, "ok", "ok", "bad"), "q", "probe")
	case 1: // P18: redirect
		g.script("group g1 u=alice:pw:op u=bob:pw:present redir=https%3A%2F%2Fexample.org%2Fgroup%2Fg9%2F",
			"client 0 c0", "client 1 c1", "m 0 t=join k=join g=g1 u=alice pw=pw")
		switch r.Intn(3) {
		case 0:
			g.script("probe", "q")
		case 1:
			g.script("a 0", "m 0 t=offer id=s1 sdp=ok", "q")
		default:
			g.script("a 0", "probe", "m 1 t=join k=join g=g1 u=bob pw=pw", "a 1", "drop 0", "probe", "q")
		}
	case 2: // P12: a queued user event handled after leave
		g.script("group g1 u=alice:pw:op u=bob:pw:present w=*:message", "client 0 c0", "client 1 c1",
			"m 0 t=join k=join g=g1 u=alice pw=pw", "q", "m 1 t=join k=join g=g1 u=bob pw=pw")
		if r.Bool() {
			g.script("m 0 t=join k=leave g=g1", "a 0", "q")
		} else {
			g.script("a 1", "a 1", "m 1 t=join k=leave g=g1", "q")
		}
	case 3: // P11: edittoken across groups
		g.script("group g1 u=alice:pw:op", "group g2 u=dan:pw:op",
			"tok tk1 g2 % present+message F -", "client 0 c0", "client 1 c1",
			"m 0 t=join k=join g=g1 u=alice pw=pw", "q", "m 0 t=groupaction k=listtokens",
			"m 0 t=groupaction k=edittoken v=m.token~s.tk1!expires~i."+common.Pick(r, "-3600000", "7200000"),
			"m 1 t=join k=join g=g2 tok=tk1 u=tim", "q", "probe")
	case 4: // permission lists shared through a token
		g.script("group g1 u=alice:pw:op w=*:message", "tok tk1 g1 % present+message F -",
			"client 0 c0", "client 1 c1", "client 2 c2",
			"m 0 t=join k=join g=g1 u=alice pw=pw", "m 1 t=join k=join g=g1 tok=tk1 u=tim",
			"m 2 t=join k=join g=g1 tok=tk1 u=tom", "q",
			"m 0 t=useraction k=shutup dst=c1", "q", "m 0 t=useraction k=op dst=c1", "q", "probe",
			"m 2 t=groupaction k=lock", "q", "probe")
	case 5: // P17: change broadcasts overtaking each other / landing after delete
		g.script("group g1 u=alice:pw:op u=bob:pw:present w=*:message", "client 0 c0", "client 1 c1", "client 2 c2",
			"m 0 t=join k=join g=g1 u=alice pw=pw", "m 1 t=join k=join g=g1 u=bob pw=pw",
			"m 2 t=join k=join g=g1 u=will pw=x", "q", "mock g1 mk", "q", "block mk 1")
		if r.Bool() {
			g.script("m 1 t=useraction k=setdata dst=c1 v=m.k~s.one", "block mk 0",
				"m 1 t=useraction k=setdata dst=c1 v=m.k~s.two", "q", "release mk 0", "q", "probe")
		} else {
			// the member disconnects while its change is still being announced
			g.script("m 1 t=useraction k=setdata dst=c1 v=m.k~s.one", "block mk 0",
				"drop 1", "q", "release mk 0", "q", "probe")
		}
	case 6: // P19: a permission change queued for a client that has left
		g.script("group g1 u=alice:pw:op u=bob:pw:present", "client 0 c0", "client 1 c1",
			"m 0 t=join k=join g=g1 u=alice pw=pw", "m 1 t=join k=join g=g1 u=bob pw=pw", "q",
			"m 0 t=useraction k="+common.Pick(r, "op", "shutup", "unpresent")+" dst=c1", "m 1 t=join k=leave g=g1", "q", "probe")
	case 7: // revocation closes streams; leave closes streams
		g.script("group g1 u=alice:pw:op u=bob:pw:present w=*:message", "client 0 c0", "client 1 c1", "client 2 c2",
			"m 0 t=join k=join g=g1 u=alice pw=pw", "m 1 t=join k=join g=g1 u=bob pw=pw",
			"m 2 t=join k=join g=g1 u=will pw=x", "q", "addup 1 s1", "m 2 t=request req=m.~l.audio+video", "q",
			"m 0 t=useraction k=unpresent dst=c1", "q", "m 1 t=offer id=s2 sdp=bad", "probe",
			"m 0 t=useraction k=present dst=c1", "q", "addup 1 s3",
			"m 1 t="+common.Pick(r, "join k=leave g=g1", "close id=s3", "offer id=s4 sdp=bad rep=s3"), "q", "probe")
	case 8: // chat history: many messages, old entries, replay to a late joiner, clearing
		age := common.Pick(r, 0, 100, 3600)
		spec := "u=alice:pw:op u=bob:pw:present w=*:message"
		if age > 0 {
			spec += fmt.Sprintf(" age=%d", age)
		}
		g.script("group g1 "+spec, "client 0 c0", "client 1 c1", "client 2 c2",
			"m 0 t=join k=join g=g1 u=alice pw=pw", "m 1 t=join k=join g=g1 u=bob pw=pw", "q")
		nold := r.Intn(8)
		ages := []int{90000, 20000, 14500, 14300, 3700, 3500, 150, 50, 0}
		a0 := r.Intn(len(ages))
		for k := 0; k < nold; k++ {
			g.do(fmt.Sprintf("hist g1 h%d %s %s %d - s.old%d", k, common.Pick(r, "c0", "c1", "gone"), common.Pick(r, "%", "alice"), ages[a0], k))
			if a0 < len(ages)-1 && r.Bool() {
				a0++
			}
		}
		n := r.Range(0, 70)
		if g.thorough {
			n = r.Range(0, 125)
		}
		for k := 0; k < n; k++ {
			i := r.Intn(2)
			m := fmt.Sprintf("m %d t=chat v=s.m%d", i, k)
			if r.Intn(5) == 0 {
				m += " src=c" + fmt.Sprint(i)
			}
			if r.Intn(6) == 0 {
				m += fmt.Sprintf(" id=i%d", k)
			}
			if r.Intn(9) == 0 {
				m += " dst=c" + fmt.Sprint(1-i)
			}
			if r.Intn(9) == 0 {
				m += " ne=1"
			}
			g.do(m)
		}
		switch r.Intn(5) {
		case 0:
			g.do("m 0 t=groupaction k=clearchat")
		case 1:
			g.do("m 0 t=groupaction k=clearchat v=m.userId~s.c1")
		case 2:
			id := "i3"
			if len(g.rnames) > 0 {
				id = g.rnames[r.Intn(len(g.rnames))]
			}
			g.do("m 0 t=groupaction k=clearchat v=m.id~s." + id + "!userId~s." + common.Pick(r, "c0", "c1", ""))
		}
		g.script("m 2 t=join k=join g=g1 u=will pw=x", "q", "probe")
	case 9: // members that are not web clients: the recorder (and a mock) as dest of everything
		g.script("group g1 u=alice:pw:op u=bob:pw:present w=*:message rec", "client 0 c0", "client 1 c1",
			"m 0 t=join k=join g=g1 u=alice pw=pw", "m 1 t=join k=join g=g1 u=bob pw=pw", "q")
		if r.Bool() {
			g.script("mock g1 mk", "q")
		}
		g.script("m 1 t=groupaction k=record", "m 0 t=groupaction k=record", "q", "m 0 t=groupaction k=record")
		disk := "R1"
		if len(g.rnames) > 0 {
			disk = g.rnames[len(g.rnames)-1]
		}
		dests := []string{disk, disk, disk, "mk"}
		if r.Intn(3) == 0 {
			g.script("addup 1 s1", "q")
		}
		acts := []string{"op", "unop", "present", "unpresent", "shutup", "unshutup", "identify", "setdata", "kick"}
		// every action once, in random order, kick last unless chosen earlier
		for n := len(acts); n > 0; n-- {
			j := r.Intn(n)
			if acts[j] == "kick" && n > 2 && r.Intn(3) > 0 {
				j = (j + 1) % n
			}
			k := acts[j]
			acts = append(acts[:j], acts[j+1:]...)
			d := dests[r.Intn(len(dests))]
			m := "m 0 t=useraction k=" + k + " dst=" + d
			if k == "setdata" {
				m += " v=m.k~s.v"
			}
			g.do(m)
			if r.Intn(3) == 0 {
				g.do("m " + fmt.Sprint(r.Intn(2)) + " t=" + common.Pick(r, "chat", "usermessage k=info") + " dst=" + d + " v=s.hello")
			}
			if r.Bool() {
				g.do("q")
			}
		}
		g.script("q", "m 1 t=groupaction k=unrecord", "m 0 t=groupaction k=unrecord", "q",
			"m 0 t=useraction k=identify dst="+disk, "m 0 t=groupaction k=record", "q", "m 0 t=join k=leave g=g1", "q", "probe")
	case 14: // a member's connection has just failed (its writer is gone, it is still a member): a broadcast reaches everybody else
		g.script("group g1 u=alice:pw:op u=bob:pw:present u=carl:pw:message w=*:message", "client 0 c0", "client 1 c1", "client 2 c2", "client 3 c3",
			"client 4 c4", "client 5 c5",
			"m 0 t=join k=join g=g1 u=alice pw=pw", "m 1 t=join k=join g=g1 u=bob pw=pw", "m 2 t=join k=join g=g1 u=carl pw=pw",
			"m 3 t=join k=join g=g1 u=will pw=x", "m 4 t=join k=join g=g1 u=zed pw=x", "m 5 t=join k=join g=g1 u=yan pw=x", "q")
		dead := r.Intn(6)
		g.do(fmt.Sprintf("killwriter %d", dead))
		if r.Bool() {
			g.do(fmt.Sprintf("killwriter %d", (dead+1+r.Intn(5))%6))
		}
		snd := (dead + 1 + r.Intn(5)) % 6
		g.do(fmt.Sprintf("m %d t=%s v=s.hello%s", snd, common.Pick(r, "chat", "chat", "usermessage k=info"), common.Pick(r, "", " ne=1")))
	case 13: // a permission held twice is revoked: both occurrences go
		g.script("group g1 u=alice:pw:op w=*:message rec", "client 0 c0", "client 1 c1", "client 2 c2",
			"m 0 t=join k=join g=g1 u=alice pw=pw", "q",
			"m 0 t=groupaction k=maketoken v=m.group~s.g1!expires~i.3600000!permissions~l."+common.Pick(r, "present+present", "present+message+present", "message+present+message+present"),
			"q", "m 1 t=join k=join g=g1 tok=R1 u=tim", "q", "probe")
		for _, k := range []string{common.Pick(r, "unpresent", "shutup"), common.Pick(r, "unpresent", "shutup", "op"), "unop", "unpresent"} {
			g.script("m 0 t=useraction k="+k+" dst=c1", "q", "probe")
		}
		g.script("m 1 t=offer id=s1 sdp=bad", "m 1 t=chat v=s.hi", "q")
	case 12: // joins and leaves are announced under the group's lock: with a slow member present, a join that overlaps other
		// members' leaves (or a further join) must still leave every list equal to the membership
		g.script("group g1 u=alice:pw:op u=bob:pw:present u=carl:pw:message w=*:message", "client 0 c0", "client 1 c1", "client 2 c2", "client 3 c3",
			"client 4 c4", "client 5 c5",
			"m 0 t=join k=join g=g1 u=alice pw=pw", "m 1 t=join k=join g=g1 u=bob pw=pw", "m 3 t=join k=join g=g1 u=will pw=x",
			"m 4 t=join k=join g=g1 u=zed pw=x", "q", "mock g1 mk", "q", "block mk 1",
			"m 2 t=join k=join g=g1 u=carl pw=pw")
		switch r.Intn(3) {
		case 0:
			g.script("m 1 t=join k=leave g=g1", "m 3 t=join k=leave g=g1", "m 4 t=join k=leave g=g1")
		case 1:
			g.script("drop 0", "drop 3", "m 4 t=join k=leave g=g1")
		default:
			g.script("m 5 t=join k=join g=g1 u=yan pw=x", "m 1 t=join k=leave g=g1", "drop 4", "m 3 t=join k=leave g=g1")
		}
		g.script("release mk 0", "release mk 0", "release mk 0", "block mk 0", "q", "probe")
	case 11: // C16: an edit whose rewrite of the token file fails is refused and must not take effect, now or later
		g.script("group g1 u=alice:pw:op w=*:message", "tok tk1 g1 % present+message "+common.Pick(r, "P", "F")+" -",
			"tok tk2 g1 % message F -", "client 0 c0", "client 1 c1",
			"m 0 t=join k=join g=g1 u=alice pw=pw", "q", "fault 1",
			"m 0 t=groupaction k=edittoken v=m.token~s.tk1!expires~i."+common.Pick(r, "-3600000", "7200000"), "fault 0",
			"m 0 t=groupaction k=listtokens", "m 0 t=groupaction k=edittoken v=m.token~s.tk2!expires~i.7200000",
			"m 0 t=groupaction k=listtokens", "m 1 t=join k=join g=g1 tok=tk1 u=tim", "q", "probe")
	case 10: // events of the group a client has just left must not reach it in its new group
		g.script("group g1 u=alice:pw:op u=bob:pw:present w=*:message", "group g2 u=alice:pw:op u=dan:pw:present w=*:message",
			"client 0 c0", "client 1 c1", "client 2 c2",
			"m 0 t=join k=join g=g1 u=alice pw=pw", "m 2 t=join k=join g=g2 u=dan pw=pw", "q",
			"m 1 t=join k=join g=g1 u=bob pw=pw")
		if r.Bool() {
			// a change announcement of g1 that is still on its way when client 0 is already in g2
			g.script("q", "mock g1 mk", "q", "block mk 1", "m 1 t=useraction k=setdata dst=c1 v=m.k~s.late", "block mk 0",
				"m 0 t=join k=leave g=g1", "m 0 t=join k=join g=g2 u=alice pw=pw", "q", "release mk 0", "q", "probe")
			return
		}
		if r.Bool() {
			g.script("m 1 t=useraction k=setdata dst=c1 v=m.k~s.v")
		}
		if r.Bool() {
			g.script("m 1 t=join k=leave g=g1")
		}
		// client 0 changes group before its action loop has run
		g.script("m 0 t=join k=leave g=g1", "m 0 t=join k=join g=g2 u=alice pw=pw", "q", "probe",
			"m 0 t=chat v=s.hello", "q")
	}
}

func gen(t *common.Trace, e common.Engine, r *common.Rng, thorough bool) {
	ncases := 500
	maxSleep := 10
	if thorough {
		ncases = 3000
		maxSleep = 60
	}
	sleeps := 0
	// common.NewRng(seed) makes the streams of consecutive seeds shifted copies
	// of one another: re-seed from a hash of the seed
	r = common.NewRng((r.U64() ^ 0x5851F42D4C957F2D) * (2*common.Seed() + 1))
	// the websocket reader itself (everything else in this engine enters below it)
	t.Case("readerprobe")
	e.Reset()
	for k := 0; k < 6; k++ {
		common.Do(t, e, fmt.Sprintf("readerprobe %d", r.Intn(1000000)))
	}
	common.Do(t, e, fmt.Sprintf("slowmember %d", r.Range(20, 150)))
	for n := 0; n < ncases; n++ {
		g := &gstate{t: t, e: e, r: r, thorough: thorough, sleeps: &sleeps, maxSleep: maxSleep, histAge: map[string]int{}}
		t.Case(fmt.Sprint(n))
		e.Reset()
		if r.Intn(100) < 20 {
			k := r.Intn(15)
			t.Count(fmt.Sprintf("directed:%d", k))
			g.directed(k)
		} else {
			g.randomCase(n)
		}
	}
}
