// Engine `sig`: drives real rtpconn.webClients (handleClientMessage,
// handleAction, leaveGroup) without a websocket, on real group.Groups read from
// a temporary directory and a temporary stateful-token file (C11, C12, C14, C15).
//
// Ops (see lean/GaleneVerif/Engine/Sig.lean for the grammar of results):
//   group <name> <k=v...>       write a group description (before first use)
//   tok <name> <group> <user|%> <perms> <exp> <nbf>   pre-create a stateful token
//   hist <group> <id> <src> <user|%> <age> <kind> <val>  insert a history entry
//   client <i> <id>             new connection (slots are never reused)
//   m <i> k=v ...               handle one client message (no action is run)
//   a <i>                       handle the oldest queued action of client i
//   q                           run all queued actions to quiescence
//   drop <i>                    the peer closed the connection
//   addup <i> <id>              give client i an (un-negotiated) up stream
//   mock <group> <id>           add a non-web member; block/release park its PushClient
//   block <id> <0|1> ; release <id> <k> ; unmock <id>
//   probe                       every client's server-side state
package main

import (
	"encoding/json"
	"fmt"
	"io"
	"log"
	"os"
	"path/filepath"
	"sort"
	"strconv"
	"strings"
	"syscall"
	"time"

	"github.com/jech/galene/diskwriter"
	"github.com/jech/galene/group"
	"github.com/jech/galene/rtpconn"
	"github.com/jech/galene/token"
	"github.com/jech/galene/zzverif/common"
)

type slot struct {
	v  *rtpconn.VerifClient
	id string
}

type eng struct {
	root    string
	ncase   int
	dir     string
	clients []*slot
	mocks   map[string]*rtpconn.VerifMock
	mockIds []string
	rnames  map[string]string // server-generated string -> R<k>
	rback   map[string]string
	last    map[string]string // last printed state tokens
	accum   map[int][]string  // descriptors of actions queued since the last report
	ages    map[string]int    // group -> max-history-age (for nothing but documentation)
	fault   bool              // run message handlers with RLIMIT_FSIZE 0: rewriting the token file fails
}

// withFault runs fn with RLIMIT_FSIZE 0: every write(2) to a regular file fails with
// EFBIG (SIGXFSZ is ignored by the Go runtime), so token.Update cannot rewrite its file.
func withFault(on bool, fn func()) {
	if !on {
		fn()
		return
	}
	var old syscall.Rlimit
	if err := syscall.Getrlimit(syscall.RLIMIT_FSIZE, &old); err != nil {
		panic(err)
	}
	if err := syscall.Setrlimit(syscall.RLIMIT_FSIZE, &syscall.Rlimit{Cur: 0, Max: old.Max}); err != nil {
		panic(err)
	}
	defer func() {
		if err := syscall.Setrlimit(syscall.RLIMIT_FSIZE, &old); err != nil {
			panic(err)
		}
	}()
	fn()
}

func (e *eng) Reset() {
	e.fault = false
	if e.root == "" {
		d, err := os.MkdirTemp("", "sigverif")
		if err != nil {
			panic(err)
		}
		e.root = d
		log.SetOutput(io.Discard)
	}
	// let go of whatever is parked from the previous case
	for _, m := range e.mocks {
		m.SetBlock(false)
		for m.Release(0) {
		}
	}
	rtpconn.VerifSettle(func() int { return 0 })
	if e.dir != "" {
		os.RemoveAll(e.dir)
	}
	e.ncase++
	e.dir = filepath.Join(e.root, fmt.Sprintf("c%d", e.ncase))
	os.MkdirAll(filepath.Join(e.dir, "groups"), 0700)
	os.MkdirAll(filepath.Join(e.dir, "data"), 0700)
	os.MkdirAll(filepath.Join(e.dir, "rec"), 0700)
	group.VerifReset()
	group.Directory = filepath.Join(e.dir, "groups")
	group.DataDirectory = filepath.Join(e.dir, "data")
	diskwriter.Directory = filepath.Join(e.dir, "rec")
	token.SetStatefulFilename(filepath.Join(e.dir, "data", "tokens.jsonl"))
	e.clients = nil
	e.mocks = map[string]*rtpconn.VerifMock{}
	e.mockIds = nil
	e.rnames = map[string]string{}
	e.rback = map[string]string{}
	e.last = map[string]string{}
	e.accum = map[int][]string{}
}

// ---------------------------------------------------------------------------
// canonical strings (mirrored in Engine/Sig.lean)

func esc(s string) string {
	var b strings.Builder
	for i := 0; i < len(s); i++ {
		c := s[i]
		if c >= 'a' && c <= 'z' || c >= 'A' && c <= 'Z' || c >= '0' && c <= '9' || c == '_' || c == '-' {
			b.WriteByte(c)
		} else {
			fmt.Fprintf(&b, "%%%02X", c)
		}
	}
	return b.String()
}

func unesc(s string) string {
	var b strings.Builder
	for i := 0; i < len(s); i++ {
		if s[i] == '%' && i+3 <= len(s) {
			n, err := strconv.ParseUint(s[i+1:i+3], 16, 8)
			if err == nil {
				b.WriteByte(byte(n))
				i += 2
				continue
			}
		}
		b.WriteByte(s[i])
	}
	return b.String()
}

// server-generated strings: 8 random bytes in base64url (chat ids, tokens) and
// 16 random bytes in hex (recorder ids).  The generator never uses 11- or
// 32-character strings.
func (e *eng) rid(s string) string {
	if len(s) != 11 && len(s) != 32 {
		return s
	}
	if r, ok := e.rnames[s]; ok {
		return r
	}
	r := fmt.Sprintf("R%d", len(e.rnames)+1)
	e.rnames[s] = r
	e.rback[r] = s
	return r
}

func (e *eng) unrid(s string) string {
	if r, ok := e.rback[s]; ok {
		return r
	}
	return s
}

func permStr(p []string) string {
	q := make([]string, len(p))
	for i, s := range p {
		q[i] = esc(s)
	}
	return strings.Join(q, "+")
}

func (e *eng) scalarStr(v interface{}) string {
	switch v := v.(type) {
	case nil:
		return "n"
	case string:
		return "s." + esc(e.rid(v))
	case float64:
		if v == float64(int64(v)) {
			return fmt.Sprintf("i.%d", int64(v))
		}
		return "f?"
	case int:
		return fmt.Sprintf("i.%d", v)
	case bool:
		return "b." + common.B2s(v)
	case []interface{}:
		it := make([]string, len(v))
		for i, x := range v {
			s, ok := x.(string)
			if !ok {
				return "l?"
			}
			it[i] = esc(s)
		}
		return "l." + strings.Join(it, "+")
	case []string:
		return "l." + permStr(v)
	}
	return "x?"
}

var serverTexts = map[string]bool{}

func timeClass(t *time.Time) string {
	if t == nil {
		return "-"
	}
	if t.After(time.Now().Add(time.Minute)) {
		return "F"
	}
	return "P"
}

func optStr(s *string) string {
	if s == nil {
		return "%"
	}
	return esc(*s)
}

func (e *eng) tokStr(t *token.Stateful) string {
	if t == nil {
		return "nil"
	}
	return strings.Join([]string{esc(e.rid(t.Token)), esc(t.Group), optStr(t.Username), permStr(t.Permissions),
		timeClass(t.Expires), timeClass(t.NotBefore), optStr(t.IssuedBy)}, "/")
}

func (e *eng) mapStr(m map[string]interface{}) string {
	keys := make([]string, 0, len(m))
	for k := range m {
		keys = append(keys, k)
	}
	sort.Strings(keys)
	it := make([]string, len(keys))
	for i, k := range keys {
		it[i] = esc(k) + "~" + e.scalarStr(m[k])
	}
	return "m." + strings.Join(it, "!")
}

func (e *eng) valStr(v interface{}) string {
	switch v := v.(type) {
	case map[string]interface{}:
		return e.mapStr(v)
	case *token.Stateful:
		return "t." + e.tokStr(v)
	case []*token.Stateful:
		it := make([]string, len(v))
		for i, t := range v {
			it[i] = e.tokStr(t)
		}
		sort.Strings(it)
		return "T." + strings.Join(it, ",")
	}
	return e.scalarStr(v)
}

// error texts that come from libraries (pion) are not part of the model
var knownErr = map[string]bool{
	"not authorised": true, "join a group first": true, "user unknown": true, "this user doesn't chat": true,
	"bad value in clearchat": true, "already recording": true, "Bad value in setdata": true, "no suck user": true,
	"this is not a real user": true, "client not found": true, "no such user": true, "permission denied": true,
	"you are not joined": true, "unknown group action": true, "unknown user action": true, "unknown permission": true,
	"spoofed client id": true, "spoofed username": true, "unknown kind": true, "cannot join multiple groups": true,
	"empty id": true, "null candidate": true, "unexpected message": true,
}

func (e *eng) msgStr(o rtpconn.VerifOut, self string) string {
	if o.Close {
		code, text := 0, ""
		if len(o.CloseData) >= 2 {
			code = int(o.CloseData[0])<<8 | int(o.CloseData[1])
			text = string(o.CloseData[2:])
		}
		return fmt.Sprintf("CLOSE:%d;v=s.%s", code, esc(text))
	}
	var b strings.Builder
	b.WriteString(esc(o.Type) + ":" + esc(o.Kind))
	f := func(k, v string) {
		if v != "" {
			b.WriteString(";" + k + "=" + esc(e.rid(v)))
		}
	}
	f("id", o.Id)
	f("rep", o.Replace)
	f("src", o.Source)
	f("dst", o.Dest)
	if o.Username != nil {
		b.WriteString(";u=" + esc(*o.Username))
	}
	if o.Privileged {
		b.WriteString(";priv")
	}
	if o.NoEcho {
		b.WriteString(";ne")
	}
	f("err", o.Error)
	f("g", o.Group)
	if len(o.Permissions) > 0 {
		b.WriteString(";p=" + permStr(o.Permissions))
	}
	if o.HasStatus {
		b.WriteString(fmt.Sprintf(";st=%s.%d", common.B2s(o.Locked), o.ClientCount))
	}
	if len(o.Data) > 0 {
		b.WriteString(";d=" + e.mapStr(o.Data))
	}
	if o.Value != nil {
		v := o.Value
		if s, ok := v.(string); ok {
			if o.Type == "usermessage" && o.Kind == "error" && o.Privileged && o.Source == "" && !knownErr[s] &&
				strings.Contains(s, " ") {
				v = "OTHER"
			}
			if o.Type == "usermessage" && o.Kind == "token" && o.Error != "" && strings.HasSuffix(s, "file too large") {
				v = "EFBIG" // the text carries the path of the scratch directory
			}
			if o.Type == "chat" && o.Username != nil && *o.Username == "Server" && o.Source == "" {
				lines := strings.Split(strings.TrimSuffix(s, "\n"), "\n")
				sort.Strings(lines)
				v = strings.Join(lines, "\n")
			}
		}
		b.WriteString(";v=" + e.valStr(v))
	}
	return b.String()
}

func (e *eng) groupName(g *group.Group) string {
	if g == nil {
		return "%"
	}
	return esc(g.Name())
}

func (e *eng) actStr(a rtpconn.VerifAct) string {
	switch a.T {
	case "user":
		d := "-"
		if len(a.Data) > 0 {
			d = e.mapStr(a.Data)
		}
		return "user:" + esc(a.A) + ":" + esc(e.rid(a.B)) + ":" + optStr(a.User) + ":" + permStr(a.Perms) + ":" + d + ":" + esc(a.C)
	case "conn":
		return "conn:" + esc(a.A) + ":" + common.B2s(a.HasUp) + ":" + esc(a.B) + ":" + e.groupName(a.GroupPtr)
	case "req":
		return "req:" + esc(e.rid(a.A)) + ":" + esc(a.B) + ":" + e.groupName(a.GroupPtr)
	case "perm":
		return "perm:" + esc(a.A)
	case "joined":
		return "joined:" + esc(a.A) + ":" + esc(a.B)
	case "kick":
		return "kick:" + esc(a.A) + ":" + optStr(a.User) + ":" + esc(a.B)
	}
	return a.T
}

func (e *eng) blocking() bool {
	for _, m := range e.mocks {
		if m.Blocking() {
			return true
		}
	}
	return false
}

func (e *eng) parked() int {
	n := 0
	for _, m := range e.mocks {
		n += m.Blocked()
	}
	return n
}

func (e *eng) groupState(g *group.Group) string {
	l := "u"
	if locked, msg := g.Locked(); locked {
		l = "l." + esc(msg)
	}
	hs := group.VerifHistory(g)
	h := make([]string, len(hs))
	for i, x := range hs {
		h[i] = esc(e.rid(x.Id))
	}
	d := "-"
	if gd := g.Data(); len(gd) > 0 {
		d = e.mapStr(gd)
	}
	cs := g.GetClients(nil)
	ms := make([]string, len(cs))
	for i, c := range cs {
		cd := "-"
		if x := c.Data(); len(x) > 0 {
			cd = e.mapStr(x)
		}
		ms[i] = esc(e.rid(c.Id())) + "^" + esc(c.Username()) + "^" + permStr(c.Permissions()) + "^" + cd
	}
	sort.Strings(ms)
	return l + "/" + strings.Join(h, "+") + "/" + d + "/" + strings.Join(ms, ",")
}

var roleNames = []string{"op", "present", "message", "observe", "caption", "admin"}

// after every op: wait for detached goroutines, then report what was written
// to every client, what was queued for it, and every piece of shared state
// that changed.
func (e *eng) observe(status string) string {
	out := []string{status}
	if !rtpconn.VerifSettle(e.parked) {
		out[0] = status + "!unsettled"
	}
	var ws, qs []string
	for i, s := range e.clients {
		w := s.v.Writes()
		if len(w) > 0 {
			it := make([]string, len(w))
			for k, o := range w {
				it[k] = e.msgStr(o, s.id)
			}
			ws = append(ws, fmt.Sprintf("w%d=%s", i, strings.Join(it, "|")))
		}
	}
	e.collect()
	for i := range e.clients {
		if it := e.accum[i]; len(it) > 0 {
			qs = append(qs, fmt.Sprintf("q%d=%s", i, strings.Join(it, "|")))
		}
	}
	e.accum = map[int][]string{}
	out = append(out, ws...)
	out = append(out, qs...)
	names := group.GetNames()
	sort.Strings(names)
	for _, n := range names {
		g := group.Get(n)
		if g == nil {
			continue
		}
		s := e.groupState(g)
		k := "g." + esc(n)
		if e.last[k] != s {
			e.last[k] = s
			out = append(out, k+"="+s)
		}
	}
	ts := e.tokenState()
	if e.last["t"] != ts && !(e.last["t"] == "" && ts == "-") {
		e.last["t"] = ts
		out = append(out, "t="+ts)
	}
	for _, r := range roleNames {
		s := permStr(group.VerifRole(r))
		k := "r." + r
		if prev, ok := e.last[k]; !ok {
			e.last[k] = s
			if s != permStr(roleDefault[r]) {
				out = append(out, k+"="+s)
			}
		} else if prev != s {
			e.last[k] = s
			out = append(out, k+"="+s)
		}
	}
	return strings.Join(out, " ")
}

var roleDefault = map[string][]string{
	"op":      {"op", "present", "message", "caption", "token"},
	"present": {"present", "message"},
	"message": {"message"},
	"observe": {},
	"caption": {"caption"},
	"admin":   {"admin"},
}

func (e *eng) tokenState() string {
	ts := token.VerifAll()
	if len(ts) == 0 {
		return "-"
	}
	all := make([]string, len(ts))
	for i, t := range ts {
		all[i] = e.tokStr(t)
	}
	sort.Strings(all)
	return strings.Join(all, ",")
}

// ---------------------------------------------------------------------------
// op parsing

func (e *eng) parseScalar(s string) interface{} {
	switch {
	case s == "n":
		return nil
	case strings.HasPrefix(s, "s."):
		return e.unrid(unesc(s[2:]))
	case strings.HasPrefix(s, "i."):
		n, err := strconv.ParseInt(s[2:], 10, 64)
		if err != nil {
			panic("bad int in value " + s)
		}
		return float64(n)
	case strings.HasPrefix(s, "b."):
		return s[2:] == "1"
	case strings.HasPrefix(s, "l."):
		out := []interface{}{}
		if s[2:] != "" {
			for _, x := range strings.Split(s[2:], "+") {
				out = append(out, unesc(x))
			}
		}
		return out
	}
	panic("bad scalar " + s)
}

func (e *eng) parseVal(s string) interface{} {
	if strings.HasPrefix(s, "m.") {
		m := map[string]interface{}{}
		if s[2:] != "" {
			for _, kv := range strings.Split(s[2:], "!") {
				i := strings.IndexByte(kv, '~')
				if i < 0 {
					panic("bad map entry " + kv)
				}
				m[unesc(kv[:i])] = e.parseScalar(kv[i+1:])
			}
		}
		return m
	}
	return e.parseScalar(s)
}

func (e *eng) parseMsg(kv []string) *rtpconn.VerifMsg {
	m := &rtpconn.VerifMsg{}
	for _, x := range kv {
		i := strings.IndexByte(x, '=')
		if i < 0 {
			panic("bad message field " + x)
		}
		k, v := x[:i], x[i+1:]
		switch k {
		case "t":
			m.Type = unesc(v)
		case "k":
			m.Kind = unesc(v)
		case "id":
			m.Id = unesc(v)
		case "rep":
			m.Replace = unesc(v)
		case "src":
			m.Source = unesc(v)
		case "dst":
			m.Dest = e.unrid(unesc(v))
		case "u":
			u := unesc(v)
			m.Username = &u
		case "pw":
			m.Password = unesc(v)
		case "tok":
			m.Token = e.unrid(unesc(v))
		case "g":
			m.Group = unesc(v)
		case "v":
			m.Value = e.parseVal(v)
		case "ne":
			m.NoEcho = v == "1"
		case "d":
			d, ok := e.parseVal(v).(map[string]interface{})
			if !ok {
				panic("bad data " + v)
			}
			m.Data = d
		case "sdp":
			if v == "ok" {
				m.SDP = "x" // pion's sdp.Unmarshal accepts this; newUpConn goes on to use the group
			} else {
				m.SDP = "v=1\r\n" // rejected by sdp.Unmarshal
			}
		case "req":
			m.Request = e.parseVal(v)
		case "cand":
			m.Candidate = v == "1"
		case "lbl":
			m.Label = unesc(v)
		default:
			panic("unknown message field " + k)
		}
	}
	return m
}

func permSpecJSON(s string) string {
	if strings.HasPrefix(s, "[") {
		in := strings.TrimSuffix(strings.TrimPrefix(s, "["), "]")
		var it []string
		if in != "" {
			for _, p := range strings.Split(in, "+") {
				it = append(it, strconv.Quote(unesc(p)))
			}
		}
		return "[" + strings.Join(it, ",") + "]"
	}
	return strconv.Quote(s)
}

func pwJSON(s string) string {
	if s == "*" {
		return `{"type":"wildcard"}`
	}
	return strconv.Quote(unesc(s))
}

func (e *eng) writeGroup(name string, kv []string) string {
	var fields []string
	var users []string
	for _, x := range kv {
		k, v := x, ""
		if i := strings.IndexByte(x, '='); i >= 0 {
			k, v = x[:i], x[i+1:]
		}
		switch k {
		case "u":
			p := strings.SplitN(v, ":", 3)
			if p[1] == "" {
				users = append(users, fmt.Sprintf("%s:{\"permissions\":%s}", strconv.Quote(unesc(p[0])), permSpecJSON(p[2])))
			} else {
				users = append(users, fmt.Sprintf("%s:{\"password\":%s,\"permissions\":%s}", strconv.Quote(unesc(p[0])), pwJSON(p[1]), permSpecJSON(p[2])))
			}
		case "w":
			p := strings.SplitN(v, ":", 2)
			fields = append(fields, fmt.Sprintf("\"wildcard-user\":{\"password\":%s,\"permissions\":%s}", pwJSON(p[0]), permSpecJSON(p[1])))
		case "rec":
			fields = append(fields, `"allow-recording":true`)
		case "utok":
			fields = append(fields, `"unrestricted-tokens":true`)
		case "alock":
			fields = append(fields, `"autolock":true`)
		case "akick":
			fields = append(fields, `"autokick":true`)
		case "auto":
			fields = append(fields, `"auto-subgroups":true`)
		case "max":
			fields = append(fields, `"max-clients":`+v)
		case "age":
			fields = append(fields, `"max-history-age":`+v)
		case "redir":
			fields = append(fields, `"redirect":`+strconv.Quote(unesc(v)))
		case "closed":
			fields = append(fields, `"expires":"2001-01-01T00:00:00Z"`)
		case "notyet":
			fields = append(fields, `"not-before":"2099-01-01T00:00:00Z"`)
		default:
			panic("unknown group field " + k)
		}
	}
	if users != nil {
		fields = append(fields, "\"users\":{"+strings.Join(users, ",")+"}")
	}
	fn := filepath.Join(group.Directory, filepath.FromSlash(name)+".json")
	os.MkdirAll(filepath.Dir(fn), 0700)
	err := os.WriteFile(fn, []byte("{"+strings.Join(fields, ",")+"}\n"), 0600)
	if err != nil {
		return "err"
	}
	return "ok"
}

func classTime(c string) *time.Time {
	var t time.Time
	switch c {
	case "F":
		t = time.Now().Add(24 * time.Hour)
	case "P":
		t = time.Now().Add(-24 * time.Hour)
	default:
		return nil
	}
	return &t
}

func errStatus(err error) string {
	class, text := rtpconn.VerifErr(err)
	return "err:" + class + ":" + esc(text)
}

// call f with recover; a panic becomes the status `panic:<text>`
func guarded(f func() string) (res string) {
	defer func() {
		if r := recover(); r != nil {
			s := fmt.Sprint(r)
			if i := strings.IndexByte(s, '\n'); i >= 0 {
				s = s[:i]
			}
			res = "panic:" + esc(s)
		}
	}()
	return f()
}

func (e *eng) client(tok string) *slot {
	i := common.Atoi(tok)
	if i < 0 || i >= len(e.clients) {
		return nil
	}
	return e.clients[i]
}

// one queued action of one client; returns "" if there was none
func (e *eng) stepOne(s *slot) string {
	if s.v.Dead || s.v.Pending() == 0 {
		return ""
	}
	return guarded(func() string {
		err := s.v.Step()
		if err != nil {
			st := errStatus(err)
			s.v.Finish(err)
			return st
		}
		return "ok"
	})
}

func (e *eng) Exec(op []string) string {
	switch op[0] {
	case "group":
		return e.writeGroup(unesc(op[1]), op[2:])
	case "tok":
		var user *string
		if op[3] != "%" {
			u := unesc(op[3])
			user = &u
		}
		var perms []string
		if op[4] != "-" {
			perms = []string{}
			if op[4] != "" && op[4] != "[]" {
				for _, p := range strings.Split(op[4], "+") {
					perms = append(perms, unesc(p))
				}
			}
		}
		t := &token.Stateful{Token: unesc(op[1]), Group: unesc(op[2]), Username: user, Permissions: perms,
			Expires: classTime(op[5]), NotBefore: classTime(op[6])}
		_, err := token.Update(t, "")
		if err != nil {
			return e.observe("err")
		}
		return e.observe("ok")
	case "hist":
		g := group.Get(unesc(op[1]))
		if g == nil {
			return "nogroup"
		}
		var user *string
		if op[4] != "%" {
			u := unesc(op[4])
			user = &u
		}
		age := common.Atoi(op[5])
		kind := unesc(op[6])
		if kind == "-" {
			kind = ""
		}
		src := e.unrid(unesc(op[3]))
		if src == "-" {
			src = ""
		}
		g.AddToChatHistory(e.unrid(unesc(op[2])), src, user, time.Now().Add(-time.Duration(age)*time.Second),
			kind, e.parseVal(op[7]))
		return e.observe("ok")
	case "client":
		i := common.Atoi(op[1])
		if i != len(e.clients) {
			return "badslot"
		}
		id := unesc(op[2])
		if id == "-" {
			id = ""
		}
		e.clients = append(e.clients, &slot{v: rtpconn.VerifNewClient(id), id: id})
		return "ok"
	case "m":
		s := e.client(op[1])
		if s == nil {
			return "noclient"
		}
		if s.v.Dead {
			return "dead"
		}
		m := e.parseMsg(op[2:])
		if m.Type == "offer" && m.SDP == "x" && (s.v.HasGroup() || s.v.HasUp(m.Id)) {
			// a parseable offer from a member would start a real negotiation
			return "skipped"
		}
		var st string
		withFault(e.fault, func() {
			st = guarded(func() string {
				err := s.v.Handle(m)
				if err != nil {
					st := errStatus(err)
					s.v.Finish(err)
					return st
				}
				return "ok"
			})
		})
		return e.observe(st)
	case "readerprobe": // readerprobe <seed>: a burst of messages with omitted fields through the real websocket reader
		rr := common.NewRng(uint64(common.Atoi(op[1])))
		var raw []string
		n := rr.Range(4, 12)
		for i := 0; i < n; i++ {
			m := map[string]interface{}{"type": common.Pick(rr, "chat", "chat", "usermessage", "useraction", "ping")}
			if rr.Intn(2) == 0 {
				m["kind"] = common.Pick(rr, "", "me", "caption", "info", "kick")
			}
			if rr.Intn(2) == 0 {
				m["id"] = fmt.Sprintf("i%d", rr.Intn(9))
			}
			if rr.Intn(2) == 0 {
				m["source"] = common.Pick(rr, "c0", "c1")
			}
			if rr.Intn(2) == 0 {
				m["username"] = common.Pick(rr, "alice", "bob", "root")
			}
			if rr.Intn(3) == 0 {
				m["dest"] = common.Pick(rr, "c1", "c2")
			}
			if rr.Intn(3) == 0 {
				m["noecho"] = true
			}
			if rr.Intn(2) == 0 {
				m["value"] = common.Pick(rr, "hello", "x")
			}
			if rr.Intn(6) == 0 {
				m["privileged"] = true
			}
			b, _ := json.Marshal(m)
			raw = append(raw, string(b))
		}
		return rtpconn.VerifReaderProbe(raw)
	case "slowmember": // slowmember <n>: n broadcasts to a member that drains its queue late
		return rtpconn.VerifSlowMemberProbe(common.Atoi(op[1]))
	case "killwriter": // the connection of a member fails: its writer exits, the client loop has not noticed yet
		s := e.client(op[1])
		if s == nil {
			return "noclient"
		}
		s.v.Writes() // what was written before is dropped with the connection
		s.v.KillWriter()
		return "ok"
	case "fault":
		e.fault = op[1] == "1"
		return "ok"
	case "a":
		s := e.client(op[1])
		if s == nil {
			return "noclient"
		}
		st := e.stepOne(s)
		if st == "" {
			return "none"
		}
		return e.observe(st)
	case "q":
		if e.parked() > 0 || e.blocking() {
			return "parked"
		}
		n := 0
		var closed []string
		for n < 100000 {
			progress := false
			for ci, s := range e.clients {
				for {
					r := e.stepOne(s)
					if r == "" {
						break
					}
					n++
					progress = true
					if strings.HasPrefix(r, "panic:") {
						return e.observe(r)
					}
					if r != "ok" {
						closed = append(closed, fmt.Sprintf("%d~%s", ci, r))
					}
					// the handlers queue actions for other clients (and detached
					// goroutines for everybody): fetch them before going on
					rtpconn.VerifSettle(e.parked)
					e.collect()
				}
			}
			if !progress {
				break
			}
		}
		if len(closed) > 0 {
			return e.observe(fmt.Sprintf("closed:%d:%s", n, strings.Join(closed, "+")))
		}
		return e.observe(fmt.Sprintf("ok:%d", n))
	case "drop":
		s := e.client(op[1])
		if s == nil {
			return "noclient"
		}
		if s.v.Dead {
			return "dead"
		}
		st := guarded(func() string {
			s.v.Finish(rtpconn.VerifCloseError())
			return "ok"
		})
		return e.observe(st)
	case "addup":
		s := e.client(op[1])
		if s == nil {
			return "noclient"
		}
		if s.v.Dead {
			return "dead"
		}
		if !s.v.HasGroup() {
			return "nogroup"
		}
		if s.v.NumUp() > 0 {
			return "busy"
		}
		if err := s.v.AddUp(unesc(op[2])); err != nil {
			return "err"
		}
		return "ok"
	case "mock":
		name, id := unesc(op[1]), unesc(op[2])
		if len(e.mocks) > 0 {
			return "dup"
		}
		m := rtpconn.VerifNewMock(id)
		st := guarded(func() string {
			g, err := group.AddClient(name, m, group.ClientCredentials{System: true})
			if err != nil {
				return "err"
			}
			m.SetGroup(g)
			e.mocks[id] = m
			e.mockIds = append(e.mockIds, id)
			return "ok"
		})
		return e.observe(st)
	case "unmock":
		m := e.mocks[unesc(op[1])]
		if m == nil {
			return "nomock"
		}
		if m.Blocked() > 0 {
			return "parked"
		}
		st := guarded(func() string {
			group.DelClient(m)
			m.SetGroup(nil)
			return "ok"
		})
		return e.observe(st)
	case "block":
		m := e.mocks[unesc(op[1])]
		if m == nil {
			return "nomock"
		}
		m.SetBlock(op[2] == "1")
		return "ok"
	case "release":
		m := e.mocks[unesc(op[1])]
		if m == nil {
			return "nomock"
		}
		kind, ok := m.ReleaseKind(common.Atoi(op[2]))
		if !ok {
			return "none"
		}
		if kind != "change" {
			// only changes are announced by detached goroutines (P17); anything else parked here was
			// announced outside the critical section that orders joins and leaves
			return e.observe("ok:" + kind)
		}
		return e.observe("ok")
	case "probe":
		out := []string{}
		for i, s := range e.clients {
			st := s.v.State()
			g := "%"
			if st.HasGroup {
				g = esc(st.Group)
			}
			d := "-"
			if len(st.Data) > 0 {
				d = e.mapStr(st.Data)
			}
			al := "A"
			if s.v.Dead {
				al = "D"
			}
			out = append(out, fmt.Sprintf("c%d=%s/%s/%s/%s/%s/%s/%d", i, al, g, esc(st.Username), permStr(st.Perms), d,
				strings.Join(st.Up, ","), s.v.Pending()))
		}
		if len(out) == 0 {
			return "-"
		}
		return strings.Join(out, " ")
	}
	panic("unknown op " + op[0])
}

// move newly queued actions to the harness-side FIFOs, remembering their
// descriptors for the next report
func (e *eng) collect() {
	for i, s := range e.clients {
		for _, a := range s.v.Collect(e.rid) {
			e.accum[i] = append(e.accum[i], e.actStr(a))
		}
	}
}

func main() { common.Main(&eng{}, gen) }
