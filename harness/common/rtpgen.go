package common

// Type-directed generators for RTP packets carrying VP8 / VP9 / H264 / AV1 /
// opus payloads, used by the codecs and down-track engines.

type VP8Desc struct {
	X, N, S    bool
	PartID     int
	I, L, T, K bool
	M          bool
	PictureID  int
	TL0        int
	TID        int
	Y          bool
	KeyIdx     int
	Keyframe   bool // first payload byte has P=0
	PayloadLen int
	Seed       int
}

func (d VP8Desc) Bytes() []byte {
	var b []byte
	b0 := byte(d.PartID & 7)
	if d.X {
		b0 |= 0x80
	}
	if d.N {
		b0 |= 0x20
	}
	if d.S {
		b0 |= 0x10
	}
	b = append(b, b0)
	if d.X {
		var x byte
		if d.I {
			x |= 0x80
		}
		if d.L {
			x |= 0x40
		}
		if d.T {
			x |= 0x20
		}
		if d.K {
			x |= 0x10
		}
		b = append(b, x)
		if d.I {
			if d.M {
				b = append(b, 0x80|byte((d.PictureID>>8)&0x7F), byte(d.PictureID))
			} else {
				b = append(b, byte(d.PictureID&0x7F))
			}
		}
		if d.L {
			b = append(b, byte(d.TL0))
		}
		if d.T || d.K {
			var y byte
			if d.Y {
				y = 0x20
			}
			b = append(b, byte(d.TID&3)<<6|y|byte(d.KeyIdx&0x1F))
		}
	}
	p := Payload(d.Seed, d.PayloadLen)
	if len(p) > 0 {
		if d.Keyframe {
			p[0] &^= 1
		} else {
			p[0] |= 1
		}
	}
	return append(b, p...)
}

type VP9Desc struct {
	I, P, L, F, B, E, V, Z bool
	M                      bool
	PictureID              int
	TID, SID               int
	U, D                   bool
	TL0                    int
	PDiffs                 []int
	// scalability structure
	NS        int
	Y, G      bool
	NG        int
	Keyframe  bool
	Profile   int
	PayloadLen int
	Seed      int
}

func (d VP9Desc) Bytes() []byte {
	var b0 byte
	for i, f := range []bool{d.I, d.P, d.L, d.F, d.B, d.E, d.V, d.Z} {
		if f {
			b0 |= 0x80 >> uint(i)
		}
	}
	b := []byte{b0}
	if d.I {
		if d.M {
			b = append(b, 0x80|byte((d.PictureID>>8)&0x7F), byte(d.PictureID))
		} else {
			b = append(b, byte(d.PictureID&0x7F))
		}
	}
	if d.L {
		x := byte(d.TID&7)<<5 | byte(d.SID&7)<<1
		if d.U {
			x |= 0x10
		}
		if d.D {
			x |= 1
		}
		b = append(b, x)
		if !d.F {
			b = append(b, byte(d.TL0))
		}
	}
	if d.F && d.P {
		for i, pd := range d.PDiffs {
			x := byte(pd&0x7F) << 1
			if i < len(d.PDiffs)-1 {
				x |= 1
			}
			b = append(b, x)
		}
	}
	if d.V {
		x := byte(d.NS&7) << 5
		if d.Y {
			x |= 0x10
		}
		if d.G {
			x |= 0x08
		}
		b = append(b, x)
		if d.Y {
			for i := 0; i <= d.NS; i++ {
				w, h := 320<<uint(i), 180<<uint(i)
				b = append(b, byte(w>>8), byte(w), byte(h>>8), byte(h))
			}
		}
		if d.G {
			b = append(b, byte(d.NG))
			for i := 0; i < d.NG; i++ {
				r := (i + d.Seed) % 4
				b = append(b, byte(i%3)<<5|byte(r)<<2)
				for j := 0; j < r; j++ {
					b = append(b, byte(j+1))
				}
			}
		}
	}
	p := Payload(d.Seed, d.PayloadLen)
	if len(p) > 0 && d.B {
		// VP9 uncompressed header: frame marker 0b10, profile, show_existing, frame_type
		x := byte(0x80) | byte(d.Profile&3)<<4
		if !d.Keyframe {
			if d.Profile == 3 {
				x |= 0x02
			} else {
				x |= 0x04
			}
		}
		p[0] = x
	}
	return append(b, p...)
}

type RTPHdr struct {
	Version     int
	Padding     int // number of padding bytes (0 = no padding bit)
	ExtProfile  int // 0 = no extension
	ExtWords    int
	ExtBody     []byte // exactly ExtWords*4 bytes unless Truncate
	CSRC        int
	Marker      bool
	PT          int
	Seq         int
	TS          uint32
	SSRC        uint32
}

func (h RTPHdr) Build(payload []byte) []byte {
	b0 := byte(h.Version&3)<<6 | byte(h.CSRC&15)
	if h.Padding > 0 {
		b0 |= 0x20
	}
	if h.ExtProfile != 0 {
		b0 |= 0x10
	}
	b1 := byte(h.PT & 0x7F)
	if h.Marker {
		b1 |= 0x80
	}
	b := []byte{b0, b1, byte(h.Seq >> 8), byte(h.Seq),
		byte(h.TS >> 24), byte(h.TS >> 16), byte(h.TS >> 8), byte(h.TS),
		byte(h.SSRC >> 24), byte(h.SSRC >> 16), byte(h.SSRC >> 8), byte(h.SSRC)}
	for i := 0; i < h.CSRC; i++ {
		b = append(b, 0xC0, byte(i), 0x5C, byte(i*7))
	}
	if h.ExtProfile != 0 {
		b = append(b, byte(h.ExtProfile>>8), byte(h.ExtProfile), byte(h.ExtWords>>8), byte(h.ExtWords))
		b = append(b, h.ExtBody...)
	}
	b = append(b, payload...)
	if h.Padding > 0 {
		for i := 0; i < h.Padding-1; i++ {
			b = append(b, 0)
		}
		b = append(b, byte(h.Padding))
	}
	return b
}

// GenExtBody makes an extension body of `words` 32-bit words for the profile.
func GenExtBody(r *Rng, profile, words int) []byte {
	body := make([]byte, words*4)
	switch profile {
	case 0xBEDE:
		i := 0
		for i < len(body) {
			if r.Intn(5) == 0 {
				i++ // padding byte
				continue
			}
			l := r.Intn(4)
			id := r.Range(1, 14)
			if r.Intn(20) == 0 {
				id = Pick(r, 0, 15)
			}
			body[i] = byte(id<<4 | l)
			i++
			for j := 0; j <= l && i < len(body); j++ {
				body[i] = byte(r.Intn(256))
				i++
			}
		}
	case 0x1000:
		i := 0
		for i < len(body) {
			if r.Intn(5) == 0 {
				i++
				continue
			}
			body[i] = byte(r.Range(1, 255))
			i++
			if i >= len(body) {
				break
			}
			l := r.Intn(5)
			if r.Intn(15) == 0 {
				l = r.Intn(256)
			}
			body[i] = byte(l)
			i++
			for j := 0; j < l && i < len(body); j++ {
				body[i] = byte(r.Intn(256))
				i++
			}
		}
	default:
		for i := range body {
			body[i] = byte(r.Intn(256))
		}
	}
	return body
}

// GenHdr draws an RTP header; `plain` forces the shape galene's read loop
// produces (no extension, no padding, no CSRC).
func GenHdr(r *Rng, plain bool) RTPHdr {
	h := RTPHdr{Version: 2, PT: r.Range(96, 127), Seq: r.Intn(65536), TS: uint32(r.U64()), SSRC: uint32(r.U64()),
		Marker: r.Intn(4) == 0}
	if plain {
		return h
	}
	if r.Intn(3) == 0 {
		h.CSRC = r.Intn(16)
	}
	if r.Intn(3) == 0 {
		h.ExtProfile = Pick(r, 0xBEDE, 0xBEDE, 0x1000, 0x1234, 0xBEDF)
		h.ExtWords = r.Intn(5)
		h.ExtBody = GenExtBody(r, h.ExtProfile, h.ExtWords)
		if r.Intn(10) == 0 {
			h.ExtWords += r.Range(1, 300) // oversized length field
		}
	}
	if r.Intn(6) == 0 {
		h.Padding = r.Range(1, 8)
	}
	if r.Intn(30) == 0 {
		h.Version = r.Intn(4)
	}
	return h
}

func GenVP8(r *Rng) VP8Desc {
	d := VP8Desc{X: r.Intn(5) != 0, N: r.Intn(4) == 0, S: r.Intn(2) == 0, PartID: 0,
		I: r.Intn(5) != 0, L: r.Bool(), T: r.Intn(3) != 0, K: r.Intn(4) == 0, M: r.Intn(3) != 0,
		PictureID: r.Intn(32768), TL0: r.Intn(256), TID: r.Intn(4), Y: r.Bool(), KeyIdx: r.Intn(32),
		Keyframe: r.Intn(4) == 0, PayloadLen: Pick(r, 0, 1, 2, 9, 10, 11, 40, 400), Seed: r.Intn(1000)}
	if r.Intn(4) == 0 {
		d.PartID = r.Intn(8)
	}
	if !d.M {
		d.PictureID &= 0x7F
	}
	if r.Intn(6) == 0 {
		d.PictureID = Pick(r, 0, 1, 0x7E, 0x7F, 0x80, 0x7FFE, 0x7FFF)
		if !d.M {
			d.PictureID &= 0x7F
		}
	}
	return d
}

func GenVP9(r *Rng) VP9Desc {
	d := VP9Desc{I: r.Intn(4) != 0, P: r.Bool(), L: r.Intn(4) != 0, F: r.Intn(3) == 0, B: r.Bool(), E: r.Bool(),
		V: r.Intn(4) == 0, Z: r.Intn(4) == 0, M: r.Bool(), PictureID: r.Intn(32768),
		TID: r.Intn(4), SID: r.Intn(4), U: r.Bool(), D: r.Bool(), TL0: r.Intn(256),
		NS: r.Intn(4), Y: r.Bool(), G: r.Bool(), NG: r.Intn(5), Keyframe: r.Intn(3) == 0, Profile: r.Intn(4),
		PayloadLen: Pick(r, 0, 1, 2, 30, 300), Seed: r.Intn(1000)}
	if r.Intn(12) == 0 {
		d.SID = r.Intn(8) // >= 5 is rejected by pion
	}
	if r.Intn(12) == 0 {
		d.TID = r.Intn(8)
	}
	n := r.Range(1, 3)
	if r.Intn(10) == 0 {
		n = 4
	}
	for i := 0; i < n; i++ {
		d.PDiffs = append(d.PDiffs, r.Range(1, 127))
	}
	return d
}

func GenH264(r *Rng) []byte {
	switch r.Intn(6) {
	case 0: // single NALU
		n := Pick(r, 1, 5, 7, 8, 0, 23, 30, 31)
		return append([]byte{byte(n) | 0x60}, Payload(r.Intn(100), r.Intn(40))...)
	case 1, 2: // STAP-A / STAP-B / MTAP
		t := Pick(r, 24, 24, 25, 26, 27)
		b := []byte{byte(t)}
		if t != 24 {
			b = append(b, 0, 1)
		}
		k := r.Range(0, 4)
		for i := 0; i < k; i++ {
			l := r.Range(0, 12)
			nal := Pick(r, 1, 5, 6, 7, 8, 24, 28)
			body := make([]byte, l)
			for j := range body {
				body[j] = byte(nal) | 0x40
			}
			ll := l
			if r.Intn(8) == 0 {
				ll = l + r.Range(1, 300) // length overruns
			}
			b = append(b, byte(ll>>8), byte(ll))
			b = append(b, body...)
		}
		if r.Intn(6) == 0 && len(b) > 1 {
			b = b[:len(b)-1]
		}
		if r.Intn(6) == 0 {
			b = append(b, 0)
		}
		return b
	case 3: // FU-A / FU-B
		b := []byte{byte(Pick(r, 28, 29))}
		if r.Intn(8) != 0 {
			x := byte(Pick(r, 1, 5, 7))
			if r.Bool() {
				x |= 0x80
			}
			b = append(b, x)
			b = append(b, Payload(r.Intn(100), r.Intn(30))...)
		}
		return b
	case 4:
		return nil
	}
	return RandBytes(r, r.Intn(20))
}

func leb(n int) []byte {
	var b []byte
	for {
		x := byte(n & 0x7F)
		n >>= 7
		if n > 0 {
			b = append(b, x|0x80)
		} else {
			return append(b, x)
		}
	}
}

func GenAV1(r *Rng) []byte {
	w := r.Intn(4)
	var agg byte = byte(w) << 4
	if r.Intn(3) != 0 {
		agg |= 0x08 // N
	}
	if r.Intn(8) == 0 {
		agg |= 0x80 // Z
	}
	b := []byte{agg}
	k := r.Range(0, 4)
	for i := 0; i < k; i++ {
		tpe := Pick(r, 1, 1, 2, 3, 6, 5)
		if i > 0 {
			tpe = Pick(r, 3, 6, 2, 5, 1)
		}
		obu := []byte{byte(tpe) << 3}
		if r.Intn(6) != 0 {
			obu = append(obu, byte(Pick(r, 0x00, 0x20, 0x80, 0x10, 0x60)))
			obu = append(obu, Payload(r.Intn(50), r.Intn(12))...)
		}
		last := w != 0 && i == w-1
		if !last {
			l := len(obu)
			if r.Intn(8) == 0 {
				l += r.Range(1, 400)
			}
			if r.Intn(15) == 0 {
				b = append(b, 0x80, 0x80, 0x80, 0x80, 0x01)
			} else if r.Intn(12) == 0 {
				// over-long sizes: 9 and 10 bytes of LEB128 with the high bits set (2^63 and beyond when taken for a uvarint)
				switch r.Intn(3) {
				case 0:
					b = append(b, 0xff, 0xff, 0xff, 0xff, 0xff, 0xff, 0xff, 0xff, 0xff, 0x01)
				case 1:
					b = append(b, 0x80, 0x80, 0x80, 0x80, 0x80, 0x80, 0x80, 0x80, 0x80, 0x01)
				default:
					b = append(b, 0xf0, 0xff, 0xff, 0xff, 0xff, 0xff, 0xff, 0xff, 0x7f)
				}
			} else {
				b = append(b, leb(l)...)
			}
		}
		b = append(b, obu...)
	}
	if r.Intn(8) == 0 && len(b) > 1 {
		b = b[:r.Range(1, len(b)-1)]
	}
	return b
}

func RandBytes(r *Rng, n int) []byte {
	b := make([]byte, n)
	for i := range b {
		b[i] = byte(r.Intn(256))
	}
	return b
}

var CodecNames = []string{"video/vp8", "video/VP8", "VIDEO/vp9", "video/vp9", "video/h264", "video/H264", "video/av1",
	"video/AV1", "audio/opus", "video/vp80", ""}
