package common

import "strings"

// Source is a synthetic layered video source (VP8 with temporal layers, VP9 with
// spatial and temporal layers) producing RTP packets as hex strings.
type Source struct {
	R       *Rng
	Codec   string
	Seq     int
	TS      uint32
	Pid     int
	M15     bool
	Ntid    int
	Nsid    int
	Frame   int
	TL0     int
	PktsPer int
}

func NewSource(r *Rng, codec string) *Source {
	s := &Source{R: r, Codec: codec, Seq: r.Intn(65536), TS: uint32(r.U64()), Pid: r.Intn(32768),
		M15: r.Intn(4) != 0, Ntid: r.Range(1, 3), Nsid: r.Range(1, 3), PktsPer: Pick(r, 1, 2, 4)}
	if r.Intn(3) == 0 {
		s.Seq = Pick(r, 0xFFF0, 0xDFF0, 0xE005, 0x7FF0, 0)
	}
	if r.Intn(3) == 0 {
		s.Pid = Pick(r, 0x7FF8, 0x78, 0)
	}
	return s
}

// NextFrame returns the packets of the next frame.
func (s *Source) NextFrame(forceKey bool) []string {
	r := s.R
	key := forceKey || s.Frame == 0 || r.Intn(30) == 0
	tid := 0
	if !key && s.Ntid > 1 {
		if s.Ntid == 2 {
			tid = s.Frame % 2
		} else {
			tid = []int{0, 2, 1, 2}[s.Frame%4]
		}
	}
	if key {
		s.Frame = 0
	}
	s.Frame++
	s.TS += 3000
	s.Pid++
	if s.M15 {
		s.Pid &= 0x7FFF
	} else {
		s.Pid &= 0x7F
	}
	if tid == 0 {
		s.TL0 = (s.TL0 + 1) & 0xFF
	}
	var out []string
	nsid := 1
	vp9 := strings.EqualFold(s.Codec, "video/vp9")
	if vp9 {
		nsid = s.Nsid
	}
	for sid := 0; sid < nsid; sid++ {
		n := r.Range(1, s.PktsPer)
		for i := 0; i < n; i++ {
			s.Seq = (s.Seq + 1) & 0xFFFF
			hdr := RTPHdr{Version: 2, PT: 96, Seq: s.Seq, TS: s.TS, SSRC: 0xCAFE, Marker: sid == nsid-1 && i == n-1}
			var payload []byte
			if vp9 {
				d := VP9Desc{I: true, P: !key, L: true, F: false, B: i == 0, E: i == n-1,
					V: key && sid == 0 && i == 0, M: s.M15, PictureID: s.Pid,
					TID: tid, SID: sid, U: tid > 0 && r.Intn(2) == 0, D: sid > 0, TL0: s.TL0,
					NS: nsid - 1, Y: true, Keyframe: key && sid == 0, PayloadLen: Pick(r, 5, 20, 100), Seed: s.Seq}
				payload = d.Bytes()
			} else {
				d := VP8Desc{X: true, S: i == 0, I: true, L: true, T: true, M: s.M15, PictureID: s.Pid, TL0: s.TL0,
					TID: tid, Y: tid > 0 && r.Intn(2) == 0, N: tid == s.Ntid-1 && s.Ntid > 1,
					Keyframe: key, PayloadLen: Pick(r, 5, 20, 100), Seed: s.Seq}
				payload = d.Bytes()
			}
			out = append(out, Hex(hdr.Build(payload)))
		}
	}
	return out
}
