// Package common holds what every correspondence harness shares: the
// splitmix64 PRNG (all random choices derive from VERIF_SEED), the synthetic
// payload and hash functions mirrored in lean/GaleneVerif/Engine/Common.lean,
// and the trace writer / replay reader of the line protocol.
package common

import (
	"bufio"
	"encoding/hex"
	"fmt"
	"os"
	"strconv"
	"strings"
)

type Rng struct{ s uint64 }

// NewRng derives the initial state by mixing the seed, so that consecutive seeds give unrelated
// streams (with a linear state, seed k+1 would be the stream of seed k shifted by one draw).
func NewRng(seed uint64) *Rng {
	z := seed + 0x1234567
	z = (z ^ (z >> 30)) * 0xBF58476D1CE4E5B9
	z = (z ^ (z >> 27)) * 0x94D049BB133111EB
	z ^= z >> 31
	return &Rng{s: z * 0xD1342543DE82EF95}
}

func (r *Rng) U64() uint64 {
	r.s += 0x9E3779B97F4A7C15
	z := r.s
	z = (z ^ (z >> 30)) * 0xBF58476D1CE4E5B9
	z = (z ^ (z >> 27)) * 0x94D049BB133111EB
	return z ^ (z >> 31)
}

// Intn returns a value in [0,n).
func (r *Rng) Intn(n int) int {
	if n <= 0 {
		return 0
	}
	return int(r.U64() % uint64(n))
}

// Range returns a value in [lo,hi].
func (r *Rng) Range(lo, hi int) int { return lo + r.Intn(hi-lo+1) }

func (r *Rng) Bool() bool { return r.U64()&1 == 1 }

// Pick returns one of the choices.
func Pick[T any](r *Rng, xs ...T) T { return xs[r.Intn(len(xs))] }

// Weighted returns an index drawn with the given weights.
func (r *Rng) Weighted(ws ...int) int {
	t := 0
	for _, w := range ws {
		t += w
	}
	x := r.Intn(t)
	for i, w := range ws {
		if x < w {
			return i
		}
		x -= w
	}
	return len(ws) - 1
}

func PayloadByte(seed, j int) byte {
	return byte(((seed+1)*(j+17) + j/3 + seed/5) % 251)
}

func Payload(seed, n int) []byte {
	b := make([]byte, n)
	for j := range b {
		b[j] = PayloadByte(seed, j)
	}
	return b
}

func HashBytes(b []byte) uint64 {
	h := uint64(7)
	for _, x := range b {
		h = (h*257 + uint64(x) + 1) % 1000000007
	}
	return h
}

func Hex(b []byte) string {
	if len(b) == 0 {
		return "-"
	}
	return hex.EncodeToString(b)
}

func Unhex(s string) []byte {
	if s == "-" {
		return nil
	}
	b, err := hex.DecodeString(s)
	if err != nil {
		panic("bad hex in replay: " + s)
	}
	return b
}

func B2s(b bool) string {
	if b {
		return "1"
	}
	return "0"
}

func Atoi(s string) int {
	n, err := strconv.Atoi(s)
	if err != nil {
		panic("bad int in op: " + s)
	}
	return n
}

// Trace writes the `op => result` lines.
type Trace struct {
	w     *bufio.Writer
	Hist  map[string]int
	Cases int
	Ops   int
}

func NewTrace() *Trace {
	return &Trace{w: bufio.NewWriterSize(os.Stdout, 1<<20), Hist: map[string]int{}}
}

func (t *Trace) Case(id string) {
	t.Cases++
	fmt.Fprintf(t.w, "# case %s\n", id)
}

func (t *Trace) Comment(s string) { fmt.Fprintf(t.w, "# %s\n", s) }

func (t *Trace) Line(op, res string) {
	t.Ops++
	fmt.Fprintf(t.w, "%s => %s\n", op, res)
}

// Count adds to the generator histogram (printed at the end as `#hist` lines).
func (t *Trace) Count(key string) { t.Hist[key]++ }

func (t *Trace) Close() {
	for k, v := range t.Hist {
		fmt.Fprintf(t.w, "#hist %s %d\n", k, v)
	}
	t.w.Flush()
}

func (t *Trace) Flush() { t.w.Flush() }

// Engine is what a harness implements: Exec runs one op (tokens) against the
// real code and returns the canonical result string; Reset starts a new case.
type Engine interface {
	Reset()
	Exec(op []string) string
}

// Do executes an op with panic recovery and records it.
func Do(t *Trace, e Engine, op string) (res string) {
	toks := strings.Fields(op)
	func() {
		defer func() {
			if r := recover(); r != nil {
				s := fmt.Sprint(r)
				if i := strings.IndexByte(s, '\n'); i >= 0 {
					s = s[:i]
				}
				res = "panic:" + strings.ReplaceAll(s, " ", "_")
			}
		}()
		res = e.Exec(toks)
	}()
	t.Count("op:" + toks[0])
	t.Line(op, res)
	return res
}

// Replay reads ops (lines; `# case` separators; anything after ` =>` ignored)
// from a file and executes them.
func Replay(t *Trace, e Engine, path string) {
	f, err := os.Open(path)
	if err != nil {
		fmt.Fprintln(os.Stderr, err)
		os.Exit(2)
	}
	defer f.Close()
	sc := bufio.NewScanner(f)
	sc.Buffer(make([]byte, 1<<20), 1<<26)
	started := false
	for sc.Scan() {
		line := sc.Text()
		if strings.HasPrefix(line, "# case") {
			t.Case(strings.TrimSpace(line[6:]))
			e.Reset()
			started = true
			continue
		}
		if strings.HasPrefix(line, "#") || strings.TrimSpace(line) == "" {
			continue
		}
		if !started {
			t.Case("replay")
			e.Reset()
			started = true
		}
		if i := strings.Index(line, " =>"); i >= 0 {
			line = line[:i]
		}
		Do(t, e, line)
	}
}

// Env helpers.
func Seed() uint64 {
	s := os.Getenv("VERIF_SEED")
	if s == "" {
		return 1
	}
	n, err := strconv.ParseUint(s, 10, 64)
	if err != nil {
		return 1
	}
	return n
}

func Thorough() bool { return os.Getenv("VERIF_TIER") == "thorough" }

// Main is the shared entry point: `<bin> gen` or `<bin> replay <file>`.
func Main(e Engine, gen func(t *Trace, e Engine, r *Rng, thorough bool)) {
	t := NewTrace()
	defer t.Close()
	if len(os.Args) >= 3 && os.Args[1] == "replay" {
		Replay(t, e, os.Args[2])
		return
	}
	gen(t, e, NewRng(Seed()), Thorough())
}
